package selector_test

// C06 — selectors keep their meaning through canonical formatting.
//
// Statement: for every selector expression the parser accepts, its canonical text parses
// back to a selector that matches exactly the same label sets, has the same canonical text
// and the same identity hash; the validation entry point accepts exactly the expressions the
// parser accepts.
//
// Oracle (per generated string s):
//   Validate(s)==nil  <=>  Parse(s) succeeds           (a panic is a failure)
//   on success: p2 := Parse(p.String()) succeeds, p2.String()==p.String(),
//   p2.UniqueID()==p.UniqueID(), p.Evaluate(m)==p2.Evaluate(m) for >=16 label maps.
// For strings rendered from the harness's own AST, additionally: Parse must accept them and
// an independent evaluator over that AST (documented selector semantics) agrees with
// p.Evaluate and p2.Evaluate on every map.

import (
	"fmt"
	"sort"
	"strings"
	"testing"

	"pgregory.net/rapid"

	"github.com/projectcalico/calico/libcalico-go/lib/selector"
	"github.com/projectcalico/calico/verifkit/ev"
)

type c06Node struct {
	K    string     `json:"k"`
	L    string     `json:"l,omitempty"`
	V    string     `json:"v,omitempty"`
	Set  []string   `json:"set,omitempty"`
	Kids []*c06Node `json:"kids,omitempty"`
	Cl   bool       `json:"-"` // root of a same-label cluster
}

var c06LeafKinds = []string{
	"eq", "ne", "in", "notin", "has", "contains", "starts", "ends",
	"eq", "ne", "in", "notin", "has", "contains", "starts", "ends",
	"all", "global",
}

// Label names: plain ones, names made of every non-alphanumeric identifier character, and
// names equal to / starting with the grammar's keywords.
var c06Labels = []string{
	"a", "b", "c", "A", "a.b", "k8s.io/name", "x-y_z", "0", "-", "/", ".", "_",
	"has", "in", "all", "not", "notin", "contains", "global", "starts", "ends", "with",
	"hasx", "inx", "all.x", "not-in", "containsx", "startswith",
}

var c06LongLabel = strings.Repeat("L", 512) // tokenizer.MaxLabelLength

// Values: include the other quote, operators, braces, keywords, whitespace, non-ASCII.
var c06Values = []string{
	"", "a", "b", "ab", "ba", "abc", "A", "B", " ", "a b", " a", "a ",
	"it's", `q"t`, `"`, "'", `""`, "''",
	"&&", "||", "!", "!=", "==", "(", ")", "{", "}", ",", "a,b", "{'a'}",
	"has(a)", "all()", "a == 'b'", `a == "b"`, "in", "not in",
	"é", "日本", "\t", "a\tb", "\n", "0", "-1",
}

func c06Value(t *rapid.T, label string) string {
	if rapid.IntRange(0, 9).Draw(t, label+"Rand") == 0 {
		s := rapid.StringOfN(rapid.RuneFrom([]rune("ab'\" !(){},=&|\\é\t")), 0, 6, -1).Draw(t, label+"Str")
		if strings.Contains(s, `"`) && strings.Contains(s, `'`) {
			// A string literal cannot contain its own quote character, so no input can
			// produce a value with both.
			s = strings.ReplaceAll(s, `'`, "_")
		}
		return s
	}
	return rapid.SampledFrom(c06Values).Draw(t, label)
}

func c06Label(t *rapid.T) string {
	if rapid.IntRange(0, 79).Draw(t, "labelLong") == 79 {
		return c06LongLabel
	}
	return rapid.SampledFrom(c06Labels).Draw(t, "label")
}

func c06GenLeaf(t *rapid.T) *c06Node {
	k := rapid.SampledFrom(c06LeafKinds).Draw(t, "leafKind")
	n := &c06Node{K: k}
	switch k {
	case "all", "global":
	case "has":
		n.L = c06Label(t)
	case "in", "notin":
		n.L = c06Label(t)
		cnt := rapid.IntRange(0, 4).Draw(t, "setLen")
		n.Set = []string{}
		for i := 0; i < cnt; i++ {
			n.Set = append(n.Set, c06Value(t, "setVal"))
		}
	default:
		n.L = c06Label(t)
		n.V = c06Value(t, "val")
	}
	return n
}

// c06GenCluster generates a sub-expression whose terms mostly restrict ONE label with values
// from a small pool (in / not in sets of 3+ items, ==, !=) combined by && and ||, plus a
// few has() terms on other labels, so that value restrictions on the same label meet in
// every combination of nesting.
func c06GenCluster(t *rapid.T, depth int, label string, pool []string) *c06Node {
	k := 0
	if depth > 0 {
		k = rapid.IntRange(0, 9).Draw(t, "clNode")
	}
	switch {
	case k <= 3:
		switch rapid.SampledFrom([]string{"inBig", "inBig", "inBig", "inSmall", "eq", "eq", "has", "has", "notin", "ne"}).Draw(t, "clLeaf") {
		case "inBig", "notinBig":
			n := &c06Node{K: "in", L: label, Set: []string{}}
			cnt := rapid.IntRange(3, 7).Draw(t, "clSetLen")
			for i := 0; i < cnt; i++ {
				n.Set = append(n.Set, rapid.SampledFrom(pool).Draw(t, "clSetVal"))
			}
			return n
		case "inSmall":
			n := &c06Node{K: "in", L: label, Set: []string{}}
			cnt := rapid.IntRange(1, 2).Draw(t, "clSetLen")
			for i := 0; i < cnt; i++ {
				n.Set = append(n.Set, rapid.SampledFrom(pool).Draw(t, "clSetVal"))
			}
			return n
		case "notin":
			n := &c06Node{K: "notin", L: label, Set: []string{}}
			cnt := rapid.IntRange(1, 5).Draw(t, "clSetLen")
			for i := 0; i < cnt; i++ {
				n.Set = append(n.Set, rapid.SampledFrom(pool).Draw(t, "clSetVal"))
			}
			return n
		case "eq":
			return &c06Node{K: "eq", L: label, V: rapid.SampledFrom(pool).Draw(t, "clVal")}
		case "ne":
			return &c06Node{K: "ne", L: label, V: rapid.SampledFrom(pool).Draw(t, "clVal")}
		default:
			return &c06Node{K: "has", L: rapid.SampledFrom([]string{"b", "c"}).Draw(t, "clOtherLabel")}
		}
	case k == 4:
		return &c06Node{K: "not", Kids: []*c06Node{c06GenCluster(t, depth-1, label, pool)}}
	default:
		n := &c06Node{K: "and"}
		if k >= 7 {
			n.K = "or"
		}
		cnt := rapid.IntRange(2, 3).Draw(t, "clArity")
		for i := 0; i < cnt; i++ {
			n.Kids = append(n.Kids, c06GenCluster(t, depth-1, label, pool))
		}
		return n
	}
}

var c06ClusterPools = [][]string{
	{"v", "w", "x", "y", "z"},
	{"", "a", "ab", "b", "it's", `q"t`},
	{"1", "10", "2", "A", "a", "é"},
}

func c06GenNode(t *rapid.T, depth int, root bool) *c06Node {
	if depth >= 2 && rapid.IntRange(0, 4).Draw(t, "cluster") == 0 {
		label := rapid.SampledFrom([]string{"a", "k8s.io/name", "in", "x-y_z"}).Draw(t, "clLabel")
		pool := rapid.SampledFrom(c06ClusterPools).Draw(t, "clPool")
		d := depth
		if d > 3 {
			d = 3
		}
		n := c06GenCluster(t, d, label, pool)
		n.Cl = true
		return n
	}
	w := 0
	if depth > 0 {
		lo := 0
		if root {
			lo = 4 // a root that may nest is always composite
		}
		w = rapid.IntRange(lo, 9).Draw(t, "nodeKind")
	}
	switch {
	case w <= 3:
		return c06GenLeaf(t)
	case w <= 5:
		return &c06Node{K: "not", Kids: []*c06Node{c06GenNode(t, depth-1, false)}}
	default:
		k := "and"
		if w >= 8 {
			k = "or"
		}
		cnt := rapid.IntRange(2, 3).Draw(t, "arity")
		n := &c06Node{K: k}
		for i := 0; i < cnt; i++ {
			n.Kids = append(n.Kids, c06GenNode(t, depth-1, false))
		}
		return n
	}
}

// ---- independent evaluator (documented selector semantics) ----

func c06Eval(n *c06Node, m map[string]string) bool {
	v, ok := m[n.L]
	switch n.K {
	case "all", "global":
		return true
	case "has":
		return ok
	case "eq":
		return ok && v == n.V
	case "ne":
		return !ok || v != n.V
	case "contains":
		return ok && strings.Contains(v, n.V)
	case "starts":
		return ok && strings.HasPrefix(v, n.V)
	case "ends":
		return ok && strings.HasSuffix(v, n.V)
	case "in", "notin":
		found := false
		for _, s := range n.Set {
			if ok && s == v {
				found = true
			}
		}
		if n.K == "in" {
			return found
		}
		return !found
	case "not":
		return !c06Eval(n.Kids[0], m)
	case "and":
		for _, k := range n.Kids {
			if !c06Eval(k, m) {
				return false
			}
		}
		return true
	case "or":
		for _, k := range n.Kids {
			if c06Eval(k, m) {
				return true
			}
		}
		return false
	}
	panic("HARNESS-GAP: unknown node kind " + n.K)
}

func c06Shape(n *c06Node, sb *strings.Builder) int {
	sb.WriteString(n.K)
	cnt := 1
	if len(n.Kids) > 0 {
		sb.WriteByte('(')
		for i, k := range n.Kids {
			if i > 0 {
				sb.WriteByte(',')
			}
			cnt += c06Shape(k, sb)
		}
		sb.WriteByte(')')
	}
	return cnt
}

func c06Collect(n *c06Node, labels, vals map[string]bool, leaves *[]*c06Node) {
	if n.L != "" {
		labels[n.L] = true
	}
	switch n.K {
	case "eq", "ne", "contains", "starts", "ends":
		vals[n.V] = true
	case "in", "notin":
		for _, s := range n.Set {
			vals[s] = true
		}
	}
	if len(n.Kids) == 0 {
		*leaves = append(*leaves, n)
	}
	for _, k := range n.Kids {
		c06Collect(k, labels, vals, leaves)
	}
}

// ---- renderer: AST -> text with random layout ----

type c06Renderer struct {
	t          *rapid.T
	classes    map[string]bool
	nestedNot  bool // produced "! ( <something whose parse is a negation> )" (layout of a past finding)
}

type c06Text struct {
	s          string
	bangs      int  // number of leading '!' tokens of this operation
	coreTopNot bool // what follows the bangs is a parenthesised group parsing to a negation
	atom       bool // usable as operand of '!' and '&&' without parentheses
	isOr       bool // bare a || b (needs parentheses inside &&)
}

func (x c06Text) topNot() bool { return x.bangs%2 == 1 || (x.bangs%2 == 0 && x.coreTopNot) }

func (r *c06Renderer) ws() string {
	return rapid.SampledFrom([]string{"", "", " ", " ", "\t", "  ", " \t "}).Draw(r.t, "ws")
}

func (r *c06Renderer) ws1() string {
	return rapid.SampledFrom([]string{" ", " ", "\t", "  ", "\t "}).Draw(r.t, "ws1")
}

func (r *c06Renderer) quoted(v string) string {
	hasD, hasS := strings.Contains(v, `"`), strings.Contains(v, `'`)
	switch {
	case hasD && hasS:
		panic("HARNESS-GAP: value with both quote characters cannot be written")
	case hasD:
		r.classes["value-has-dquote"] = true
		return `'` + v + `'`
	case hasS:
		r.classes["value-has-squote"] = true
		return `"` + v + `"`
	}
	if rapid.Bool().Draw(r.t, "dquote") {
		return `"` + v + `"`
	}
	return `'` + v + `'`
}

func (r *c06Renderer) paren(x c06Text) c06Text {
	return c06Text{s: "(" + r.ws() + x.s + r.ws() + ")", bangs: 0, coreTopNot: x.topNot(), atom: true}
}

func (r *c06Renderer) leaf(n *c06Node) string {
	for _, kw := range []string{"has", "in", "all", "not", "contains", "global", "starts", "ends", "with"} {
		if strings.HasPrefix(n.L, kw) {
			r.classes["keyword-like-label"] = true
		}
	}
	if len(n.L) == 512 {
		r.classes["label-512"] = true
	}
	r.classes["op-"+n.K] = true
	switch n.K {
	case "all":
		return "all(" + r.ws() + ")"
	case "global":
		return "global(" + r.ws() + ")"
	case "has":
		return "has(" + r.ws() + n.L + r.ws() + ")"
	case "eq":
		return n.L + r.ws() + "==" + r.ws() + r.quoted(n.V)
	case "ne":
		return n.L + r.ws() + "!=" + r.ws() + r.quoted(n.V)
	case "contains":
		return n.L + r.ws1() + "contains" + r.ws() + r.quoted(n.V)
	case "starts":
		return n.L + r.ws1() + "starts" + r.ws() + "with" + r.ws() + r.quoted(n.V)
	case "ends":
		return n.L + r.ws1() + "ends" + r.ws() + "with" + r.ws() + r.quoted(n.V)
	case "in", "notin":
		var sb strings.Builder
		sb.WriteString(n.L + r.ws1())
		if n.K == "notin" {
			mid := r.ws()
			if mid == "" {
				r.classes["notin-joined"] = true
			}
			sb.WriteString("not" + mid)
		}
		sb.WriteString("in" + r.ws() + "{" + r.ws())
		seen := map[string]bool{}
		for i, v := range n.Set {
			if seen[v] {
				r.classes["set-duplicate"] = true
			}
			seen[v] = true
			if i > 0 {
				sb.WriteString(r.ws() + "," + r.ws())
			}
			sb.WriteString(r.quoted(v))
		}
		if len(n.Set) == 0 {
			r.classes["set-empty"] = true
		} else if rapid.IntRange(0, 5).Draw(r.t, "trailingComma") == 0 {
			r.classes["set-trailing-comma"] = true
			sb.WriteString(r.ws() + ",")
		}
		sb.WriteString(r.ws() + "}")
		return sb.String()
	}
	panic("HARNESS-GAP: unknown leaf kind " + n.K)
}

func (r *c06Renderer) render(n *c06Node) c06Text {
	var out c06Text
	if n.Cl {
		r.classes["same-label-cluster"] = true
	}
	if (n.K == "in" || n.K == "notin") && len(n.Set) >= 3 {
		r.classes["set>=3"] = true
	}
	switch n.K {
	case "not":
		x := r.render(n.Kids[0])
		nb := 1
		if rapid.IntRange(0, 7).Draw(r.t, "tripleBang") == 0 {
			nb = 3
			r.classes["bang-chain"] = true
		}
		pre := ""
		for i := 0; i < nb; i++ {
			pre += "!" + r.ws()
		}
		wrap := !x.atom
		if x.atom && rapid.IntRange(0, 3).Draw(r.t, "parenNotOperand") == 0 {
			wrap = true
		}
		if wrap {
			x = r.paren(x)
		}
		out = c06Text{s: pre + x.s, bangs: nb + x.bangs, coreTopNot: x.coreTopNot, atom: true}
		if x.bangs > 0 {
			r.classes["bang-chain"] = true
		}
		if out.bangs%2 == 1 && out.coreTopNot {
			r.nestedNot = true
		}
	case "and", "or":
		var parts []string
		for _, k := range n.Kids {
			x := r.render(k)
			if n.K == "and" && !x.atom {
				x = r.paren(x)
			} else if n.K == "or" && !x.atom && !x.isOr {
				// bare && inside || is fine (precedence); sometimes parenthesise anyway.
				if rapid.Bool().Draw(r.t, "parenAndInOr") {
					x = r.paren(x)
				} else {
					r.classes["and-in-or-by-precedence"] = true
				}
			} else if n.K == "or" && x.isOr {
				if rapid.Bool().Draw(r.t, "parenOrInOr") {
					x = r.paren(x)
				}
			}
			parts = append(parts, x.s)
		}
		op := "&&"
		if n.K == "or" {
			op = "||"
		}
		var sb strings.Builder
		for i, p := range parts {
			if i > 0 {
				sb.WriteString(r.ws() + op + r.ws())
			}
			sb.WriteString(p)
		}
		out = c06Text{s: sb.String(), atom: false, isOr: n.K == "or"}
		r.classes["op-"+n.K] = true
	default:
		out = c06Text{s: r.leaf(n), atom: true}
	}
	{
		switch rapid.IntRange(0, 11).Draw(r.t, "decorate") {
		case 0, 1:
			out = r.paren(out)
			r.classes["redundant-parens"] = true
		case 2:
			if out.atom {
				out.s = "!" + r.ws() + "!" + r.ws() + out.s
				out.bangs += 2
				r.classes["bang-chain"] = true
				if out.bangs%2 == 1 && out.coreTopNot {
					r.nestedNot = true
				}
			}
		}
	}
	return out
}

// ---- label maps ----

func c06NearMisses(vals map[string]bool) []string {
	pool := map[string]bool{"": true, "zz": true}
	for v := range vals {
		pool[v] = true
		pool[v+"x"] = true
		pool["x"+v] = true
		pool["x"+v+"x"] = true
		pool[strings.ToUpper(v)] = true
		pool[strings.ToLower(v)] = true
		if len(v) > 0 {
			rs := []rune(v)
			pool[string(rs[:len(rs)-1])] = true
			pool[string(rs[1:])] = true
		}
	}
	out := make([]string, 0, len(pool))
	for v := range pool {
		out = append(out, v)
	}
	sort.Strings(out)
	return out
}

func c06RandomMap(t *rapid.T, labels []string, exact, near []string) map[string]string {
	m := map[string]string{}
	for _, l := range labels {
		switch c := rapid.IntRange(0, 9).Draw(t, "mapLabel"); {
		case c <= 2: // absent
		case c <= 6 && len(exact) > 0:
			m[l] = rapid.SampledFrom(exact).Draw(t, "mapExact")
		default:
			m[l] = rapid.SampledFrom(near).Draw(t, "mapNear")
		}
	}
	return m
}

// c06ForceLeaf edits m so that leaf n evaluates to want (when that is possible).
func c06ForceLeaf(n *c06Node, m map[string]string, want bool) {
	switch n.K {
	case "has":
		if want {
			if _, ok := m[n.L]; !ok {
				m[n.L] = "v"
			}
		} else {
			delete(m, n.L)
		}
	case "eq", "contains", "starts", "ends":
		if want {
			m[n.L] = n.V
		} else {
			m[n.L] = n.V + "~"
			if n.K != "eq" {
				m[n.L] = "~"
				if strings.Contains("~", n.V) {
					delete(m, n.L)
				}
			}
		}
	case "ne":
		if want {
			m[n.L] = n.V + "~"
		} else {
			m[n.L] = n.V
		}
	case "in", "notin":
		member := (n.K == "in") == want
		if member {
			if len(n.Set) > 0 {
				m[n.L] = n.Set[0]
			}
		} else {
			m[n.L] = "~none~"
		}
	}
}

func c06CopyMap(m map[string]string) map[string]string {
	c := make(map[string]string, len(m))
	for k, v := range m {
		c[k] = v
	}
	return c
}

func c06FmtMap(m map[string]string) string {
	keys := make([]string, 0, len(m))
	for k := range m {
		keys = append(keys, k)
	}
	sort.Strings(keys)
	var sb strings.Builder
	sb.WriteString("{")
	for i, k := range keys {
		if i > 0 {
			sb.WriteString(", ")
		}
		if len(k) > 40 {
			sb.WriteString(fmt.Sprintf("<%d-char label>", len(k)))
		} else {
			sb.WriteString(fmt.Sprintf("%q", k))
		}
		sb.WriteString(fmt.Sprintf(": %q", m[k]))
	}
	sb.WriteString("}")
	return sb.String()
}

// c06Abbrev compresses runs of >=32 equal bytes (the maximum-length labels) for display.
func c06Abbrev(s string) string {
	var sb strings.Builder
	for i := 0; i < len(s); {
		j := i
		for j < len(s) && s[j] == s[i] {
			j++
		}
		if j-i >= 32 {
			sb.WriteString(fmt.Sprintf("<%c*%d>", s[i], j-i))
		} else {
			sb.WriteString(s[i:j])
		}
		i = j
	}
	return sb.String()
}

func c06Short(s string) string {
	s = c06Abbrev(s)
	if len(s) > 700 {
		return fmt.Sprintf("%q...(%d bytes)", s[:700], len(s))
	}
	return fmt.Sprintf("%q", s)
}

// c06CheckString applies the statement's oracle to one input string.  ast may be nil (then
// the independent evaluator is not consulted).  Returns whether the parser accepted s and
// how many maps evaluated true / false.
// c06Queries performs, in a generated order, the read-only queries that real callers make on
// a parsed selector (label restrictions, canonical text, identity hash, evaluation) and then
// requires that the selector still means what its canonical text says: same text, same hash,
// and the same Evaluate result as before and as a fresh parse of the canonical text.
func c06Queries(t *rapid.T, s, canon string, p, p2 *selector.Selector, maps []map[string]string, before []bool) {
	describe := func() string {
		return fmt.Sprintf("  input:     %s\n  canonical: %s", c06Short(s), c06Short(canon))
	}
	readRestrictions := func(sel *selector.Selector) {
		lrs := sel.LabelRestrictions()
		n := 0
		for _, r := range lrs.All() {
			n += len(r.MustHaveOneOfValues)
			_ = r.PossibleToSatisfy()
		}
		_ = lrs.String()
		_ = n
	}
	evalAll := func(who string, sel *selector.Selector, after string) {
		for i, m := range maps {
			if got := sel.Evaluate(m); got != before[i] {
				t.Fatalf("selector no longer matches the label sets its canonical text stands for after read-only queries (%s):\n%s\n  labels:    %s\n  %s.Evaluate: %v before the queries, %v after", after, describe(), c06FmtMap(m), who, before[i], got)
			}
		}
	}
	var done []string
	nq := rapid.IntRange(1, 4).Draw(t, "numQueries")
	for i := 0; i < nq; i++ {
		q := rapid.SampledFrom([]string{"restrictions", "restrictions", "restrictions-of-reparsed", "evaluate", "text"}).Draw(t, "query")
		done = append(done, q)
		switch q {
		case "restrictions":
			readRestrictions(p)
		case "restrictions-of-reparsed":
			readRestrictions(p2)
		case "evaluate":
			evalAll("original", p, strings.Join(done, ","))
		case "text":
			if p.String() != canon || p2.String() != canon {
				t.Fatalf("canonical text changed after read-only queries (%s):\n%s\n  now: %s / %s", strings.Join(done, ","), describe(), c06Short(p.String()), c06Short(p2.String()))
			}
			if p.UniqueID() != p2.UniqueID() {
				t.Fatalf("identity hash changed after read-only queries (%s):\n%s", strings.Join(done, ","), describe())
			}
		}
	}
	after := strings.Join(done, ",")
	p3, err := selector.Parse(canon)
	if err != nil {
		t.Fatalf("canonical text stopped parsing: %v\n%s", err, describe())
	}
	if p.String() != canon || p3.String() != canon || p.UniqueID() != p3.UniqueID() {
		t.Fatalf("canonical text / identity hash changed after read-only queries (%s):\n%s\n  now: %s, fresh parse: %s", after, describe(), c06Short(p.String()), c06Short(p3.String()))
	}
	evalAll("original", p, after)
	evalAll("parsed-back", p2, after)
	evalAll("freshly parsed-back", p3, after)
}

func c06CheckString(t *rapid.T, s string, ast *c06Node, maps []map[string]string) (accepted bool, nTrue, nFalse int) {
	verr := selector.Validate(s)
	p, perr := selector.Parse(s)
	if (verr == nil) != (perr == nil) {
		t.Fatalf("Validate and Parse disagree on %s:\n  Validate error: %v\n  Parse error:    %v", c06Short(s), verr, perr)
	}
	if perr != nil {
		return false, 0, 0
	}
	if p == nil {
		t.Fatalf("Parse(%s) returned nil selector and nil error", c06Short(s))
	}
	canon := p.String()
	p2, err2 := selector.Parse(canon)
	if err2 != nil {
		t.Fatalf("canonical text does not parse back:\n  input:     %s\n  canonical: %s\n  error:     %v", c06Short(s), c06Short(canon), err2)
	}
	if verr2 := selector.Validate(canon); verr2 != nil {
		t.Fatalf("Validate rejects canonical text that Parse accepts:\n  input:     %s\n  canonical: %s\n  error:     %v", c06Short(s), c06Short(canon), verr2)
	}
	if p2.String() != canon {
		t.Fatalf("canonical text is not stable:\n  input:            %s\n  canonical:        %s\n  parsed-back text: %s", c06Short(s), c06Short(canon), c06Short(p2.String()))
	}
	if p2.UniqueID() != p.UniqueID() {
		t.Fatalf("identity hash changes through canonical text:\n  input:     %s\n  canonical: %s\n  UniqueID %s vs %s", c06Short(s), c06Short(canon), p.UniqueID(), p2.UniqueID())
	}
	before := make([]bool, 0, len(maps))
	for _, m := range maps {
		g1 := p.Evaluate(m)
		g2 := p2.Evaluate(m)
		before = append(before, g1)
		if g1 != g2 {
			t.Fatalf("meaning changes through canonical text:\n  input:     %s\n  canonical: %s\n  labels:    %s\n  original matches=%v, parsed-back matches=%v", c06Short(s), c06Short(canon), c06FmtMap(m), g1, g2)
		}
		if ast != nil {
			if want := c06Eval(ast, m); want != g1 {
				t.Fatalf("parsed selector disagrees with independent evaluation of the generated expression:\n  input:     %s\n  canonical: %s\n  labels:    %s\n  Evaluate=%v, independent evaluator=%v", c06Short(s), c06Short(canon), c06FmtMap(m), g1, want)
			}
		}
		if g1 {
			nTrue++
		} else {
			nFalse++
		}
	}
	c06Queries(t, s, canon, p, p2, maps, before)
	return true, nTrue, nFalse
}

func c06SortedKeys(m map[string]bool) []string {
	out := make([]string, 0, len(m))
	for k := range m {
		out = append(out, k)
	}
	sort.Strings(out)
	return out
}

type c06Case struct {
	ast    *c06Node
	text   string
	maps   []map[string]string
	shape  string
	nodes  int
	leaves int
	cls    map[string]bool
}

func c06GenCase(t *rapid.T) c06Case {
	depth := rapid.SampledFrom([]int{0, 1, 1, 2, 2, 2, 3, 3, 4, 5}).Draw(t, "maxDepth")
	ast := c06GenNode(t, depth, true)
	r := &c06Renderer{t: t, classes: map[string]bool{}}
	txt := r.render(ast)
	if r.nestedNot {
		r.classes["not-of-parenthesised-not"] = true
	}
	s := r.ws() + txt.s + r.ws()

	labelSet, valSet := map[string]bool{}, map[string]bool{}
	var leaves []*c06Node
	c06Collect(ast, labelSet, valSet, &leaves)
	labels := c06SortedKeys(labelSet)
	labels = append(labels, "other")
	exact := c06SortedKeys(valSet)
	near := c06NearMisses(valSet)
	var maps []map[string]string
	for i := 0; i < 16; i++ {
		maps = append(maps, c06RandomMap(t, labels, exact, near))
	}
	// Directed maps: flip individual leaves on top of a random base.
	nDirected := len(leaves)
	if nDirected > 6 {
		nDirected = 6
	}
	for i := 0; i < nDirected; i++ {
		leaf := leaves[i]
		if nDirected < len(leaves) {
			leaf = leaves[rapid.IntRange(0, len(leaves)-1).Draw(t, "directedLeaf")]
		}
		base := maps[rapid.IntRange(0, 15).Draw(t, "directedBase")]
		mt, mf := c06CopyMap(base), c06CopyMap(base)
		c06ForceLeaf(leaf, mt, true)
		c06ForceLeaf(leaf, mf, false)
		maps = append(maps, mt, mf)
	}
	maps = append(maps, map[string]string{})
	var sb strings.Builder
	nodes := c06Shape(ast, &sb)
	return c06Case{ast: ast, text: s, maps: maps, shape: sb.String(), nodes: nodes, leaves: len(leaves), cls: r.classes}
}

func TestVerifC06Grammar(t *testing.T) {
	ev.Quiet()
	rec := ev.New("C06", "grammar",
		"AST-first generator over the full selector grammar (==, !=, in, not in/notin, contains, starts with, ends with, has(), all(), global(), !, &&, ||, nesting <=5) rendered with random whitespace, quote style, redundant parentheses, bang chains, trailing commas and duplicate set members; >=17 label maps built from the expression's own labels/literals and near-misses plus maps that force single leaves true/false. Non-trivial = expression has >=2 operator nodes and the maps make it both true and false; distinct = distinct AST shape (node kinds and nesting)",
		"independent evaluator follows the documented selector semantics (missing label: ==, in, contains, starts/ends with, has() false; !=, not in true; all()/global() true)",
		"values never contain both quote characters (no selector text can express such a value)")
	defer rec.Write()
	rapid.Check(t, func(t *rapid.T) {
		c := c06GenCase(t)
		ok, nT, nF := c06CheckString(t, c.text, c.ast, c.maps)
		if !ok {
			_, perr := selector.Parse(c.text)
			t.Fatalf("parser rejects an expression of the documented grammar: %s\n  error: %v", c06Short(c.text), perr)
		}
		classes := make([]string, 0, len(c.cls)+2)
		for k := range c.cls {
			classes = append(classes, k)
		}
		if c.nodes >= 8 {
			classes = append(classes, "nodes>=8")
		}
		if nT > 0 && nF > 0 {
			classes = append(classes, "both-outcomes")
		}
		sort.Strings(classes)
		nt := c.nodes >= 2 && nT > 0 && nF > 0
		rec.SizedCase(nt, c.shape, c.nodes, func() any {
			return map[string]any{"text": c06Abbrev(c.text), "maps": len(c.maps), "true": nT, "false": nF}
		}, classes...)
	})
}

// ---- mutated / garbage strings ----

var c06Soup = []string{
	"(", ")", "!", "&&", "||", "==", "!=", "=", "&", "|", "{", "}", ",", "'", `"`,
	" ", "\t", "\n", " in ", " not in ", " notin ", " not ", " contains ", " starts with ", " ends with ",
	" starts ", " with ", "has(", "has(a)", "has( a )", "has()", "all()", "all(", "all( )", "global()", "global(",
	"'a'", `"b"`, "''", "a", "b", "a.b/c", "in", "has", "all", "x == 'y'", "a in {'x'}", "{}", "{'a',}", "{,}",
	"é", "\x00", "\xff",
}

var c06GenericLabels = []string{"a", "b", "a.b/c", "x", "in", "has", "all", "other"}
var c06GenericVals = []string{"", "a", "b", "x", "y", "ab", "A"}

func c06Mutate(t *rapid.T, s string) string {
	b := []byte(s)
	n := rapid.IntRange(1, 3).Draw(t, "mutations")
	for i := 0; i < n; i++ {
		switch rapid.IntRange(0, 5).Draw(t, "mutKind") {
		case 0: // delete a byte
			if len(b) > 0 {
				p := rapid.IntRange(0, len(b)-1).Draw(t, "pos")
				b = append(b[:p:p], b[p+1:]...)
			}
		case 1: // insert a soup token
			p := rapid.IntRange(0, len(b)).Draw(t, "pos")
			tok := rapid.SampledFrom(c06Soup).Draw(t, "tok")
			nb := append([]byte{}, b[:p]...)
			nb = append(nb, tok...)
			b = append(nb, b[p:]...)
		case 2: // replace a byte
			if len(b) > 0 {
				p := rapid.IntRange(0, len(b)-1).Draw(t, "pos")
				b[p] = rapid.SampledFrom([]byte("()!{}'\",=&| \tabin")).Draw(t, "byte")
			}
		case 3: // truncate
			if len(b) > 0 {
				b = b[:rapid.IntRange(0, len(b)-1).Draw(t, "cut")]
			}
		case 4: // duplicate a slice
			if len(b) > 1 {
				p := rapid.IntRange(0, len(b)-1).Draw(t, "pos")
				q := rapid.IntRange(p, len(b)).Draw(t, "end")
				nb := append([]byte{}, b[:q]...)
				nb = append(nb, b[p:q]...)
				b = append(nb, b[q:]...)
			}
		case 5: // swap two bytes
			if len(b) > 1 {
				p := rapid.IntRange(0, len(b)-1).Draw(t, "pos")
				q := rapid.IntRange(0, len(b)-1).Draw(t, "pos2")
				b[p], b[q] = b[q], b[p]
			}
		}
	}
	return string(b)
}

func TestVerifC06Garbage(t *testing.T) {
	ev.Quiet()
	rec := ev.New("C06", "garbage",
		"strings that are not guaranteed to be selectors: byte-level mutations (delete/insert token/replace/truncate/duplicate/swap) of rendered grammar expressions, token soups over the tokenizer's alphabet, over-long labels and arbitrary strings; each is given to Validate and Parse, and when accepted goes through the full round-trip oracle with 16 generic label maps. Non-trivial = the string differs from a generated valid rendering and the parser's verdict was compared (accepted strings additionally round-tripped); distinct = distinct (source kind, verdict, length bucket, first 24 bytes)",
		"no assumption about which garbage strings are valid: only agreement between Validate and Parse and the round-trip of accepted ones are asserted")
	defer rec.Write()
	rapid.Check(t, func(t *rapid.T) {
		var s, src string
		switch rapid.IntRange(0, 9).Draw(t, "source") {
		case 0, 1, 2, 3, 4, 5:
			src = "mutated"
			c := c06GenCase(t)
			s = c06Mutate(t, c.text)
		case 6, 7, 8:
			src = "soup"
			toks := rapid.SliceOfN(rapid.SampledFrom(c06Soup), 0, 12).Draw(t, "soup")
			s = strings.Join(toks, "")
		default:
			src = "raw"
			if rapid.Bool().Draw(t, "longLabel") {
				n := rapid.IntRange(510, 515).Draw(t, "labelLen")
				l := strings.Repeat("k", n)
				s = rapid.SampledFrom([]string{"has(%s)", "%s == 'a'", "!has( %s )", "a == 'b' && %s in {'x'}"}).Draw(t, "longTpl")
				s = fmt.Sprintf(s, l)
			} else {
				s = rapid.String().Draw(t, "raw")
			}
		}
		var maps []map[string]string
		for i := 0; i < 16; i++ {
			maps = append(maps, c06RandomMap(t, c06GenericLabels, c06GenericVals, c06GenericVals))
		}
		ok, _, _ := c06CheckString(t, s, nil, maps)
		verdict := "rejected"
		if ok {
			verdict = "accepted"
		}
		head := s
		if len(head) > 24 {
			head = head[:24]
		}
		key := fmt.Sprintf("%s|%s|%d|%q", src, verdict, len(s)/8, head)
		rec.SizedCase(true, key, len(s), func() any {
			return map[string]any{"source": src, "verdict": verdict, "text": fmt.Sprintf("%q", c06Abbrev(s))}
		}, src+"-"+verdict)
	})
}

// TestVerifC06RegressionNestedNot pins the inputs of a past finding: "!(!x)" used to be
// formatted as "!!x", which parses back to "x" (canonical text and identity hash changed
// through a round trip).
func TestVerifC06RegressionNestedNot(t *testing.T) {
	ev.Quiet()
	for _, s := range []string{"!(!has(a))", "!(!(a == 'b' && has(c)))", "!((!all()))", "!(!(!has(a)))", "((b=='')&&!(!b in{}))"} {
		p, err := selector.Parse(s)
		if err != nil {
			t.Fatalf("Parse(%q): %v", s, err)
		}
		if verr := selector.Validate(s); verr != nil {
			t.Fatalf("Validate(%q): %v but Parse accepts", s, verr)
		}
		p2, err := selector.Parse(p.String())
		if err != nil {
			t.Fatalf("Parse(%q): %v", p.String(), err)
		}
		if p2.String() != p.String() || p2.UniqueID() != p.UniqueID() {
			t.Errorf("input %q: canonical text %q parses back to %q (UniqueID %s vs %s)", s, p.String(), p2.String(), p.UniqueID(), p2.UniqueID())
		}
		for _, m := range []map[string]string{{}, {"a": "b"}, {"a": "b", "c": "d"}, {"b": ""}, {"c": ""}} {
			if p.Evaluate(m) != p2.Evaluate(m) {
				t.Errorf("input %q labels %v: original matches=%v, parsed-back matches=%v", s, m, p.Evaluate(m), p2.Evaluate(m))
			}
		}
	}
}
