package selector_test

// C06 (concurrency supplement) — the package-level Parse and Validate entry points are
// documented as usable from any goroutine (they guard shared, re-used parser state with
// locks).  The property must therefore also hold when they are called concurrently: every
// call returns what the same call returns single-threaded.  The schedule is not owned by
// the harness (real goroutines), so the unit runs under the race detector and compares
// outcomes only; a failure prints the inputs involved.

import (
	"fmt"
	"sync"
	"testing"

	"pgregory.net/rapid"

	"github.com/projectcalico/calico/libcalico-go/lib/selector"
	"github.com/projectcalico/calico/verifkit/ev"
)

type c06ConcExpect struct {
	text     string
	parseOK  bool
	canon    string
	uid      string
	validOK  bool
	evalTrue []bool
}

func TestVerifC06Concurrent(t *testing.T) {
	ev.Quiet()
	rec := ev.New("C06", "concurrent",
		"batches of 6..16 generated selector strings (valid expressions from the grammar generator and mutated/invalid ones); expected results (accept/reject, canonical text, UniqueID, Evaluate on sample maps) are computed single-threaded, then 4 goroutines call Parse and 4 call Validate on the batch concurrently for several rounds and every result must equal the expected one; run under the race detector. Non-trivial = batch contains both accepted and rejected strings; distinct = multiset of (accepted?, length bucket)",
		"real goroutines: the interleaving is not owned by the harness, so a failure may not replay from the fail file; the race detector makes unsynchronised sharing visible regardless of the outcome")
	defer rec.Write()
	rapid.Check(t, func(t *rapid.T) {
		n := rapid.IntRange(6, 16).Draw(t, "batch")
		var exp []c06ConcExpect
		maps := []map[string]string{{}, {"a": "b"}, {"a": "x", "b": "y"}, {"x": "", "in": "has"}}
		nOK, nBad := 0, 0
		shape := ""
		for i := 0; i < n; i++ {
			c := c06GenCase(t)
			s := c.text
			if rapid.IntRange(0, 2).Draw(t, "mutate") == 0 {
				s = c06Mutate(t, s)
			}
			e := c06ConcExpect{text: s}
			sel, err := selector.Parse(s)
			e.parseOK = err == nil
			e.validOK = selector.Validate(s) == nil
			if e.parseOK {
				e.canon = sel.String()
				e.uid = sel.UniqueID()
				for _, m := range maps {
					e.evalTrue = append(e.evalTrue, sel.Evaluate(m))
				}
				nOK++
			} else {
				nBad++
			}
			shape += fmt.Sprintf("%v%d,", e.parseOK, len(s)/16)
			exp = append(exp, e)
		}
		rounds := rapid.IntRange(3, 12).Draw(t, "rounds")
		var wg sync.WaitGroup
		errs := make(chan string, 64)
		report := func(msg string) {
			select {
			case errs <- msg:
			default:
			}
		}
		for g := 0; g < 8; g++ {
			wg.Add(1)
			go func(g int) {
				defer wg.Done()
				for r := 0; r < rounds; r++ {
					for i := range exp {
						e := exp[(i+g)%len(exp)]
						if g%2 == 0 {
							sel, err := selector.Parse(e.text)
							if (err == nil) != e.parseOK {
								report(fmt.Sprintf("concurrent Parse(%q) err=%v, single-threaded accepted=%v", e.text, err, e.parseOK))
								continue
							}
							if err == nil {
								if sel.String() != e.canon || sel.UniqueID() != e.uid {
									report(fmt.Sprintf("concurrent Parse(%q) gave %q (uid %s), single-threaded %q (uid %s)", e.text, sel.String(), sel.UniqueID(), e.canon, e.uid))
								}
								for j, m := range maps {
									if sel.Evaluate(m) != e.evalTrue[j] {
										report(fmt.Sprintf("concurrent Parse(%q) evaluates differently on %v", e.text, m))
									}
								}
							}
						} else {
							err := selector.Validate(e.text)
							if (err == nil) != e.validOK {
								report(fmt.Sprintf("concurrent Validate(%q) err=%v, single-threaded accepted=%v", e.text, err, e.validOK))
							}
						}
					}
				}
			}(g)
		}
		wg.Wait()
		close(errs)
		for msg := range errs {
			t.Fatalf("%s", msg)
		}
		rec.SizedCase(nOK > 0 && nBad > 0, shape, n, func() any {
			return map[string]any{"batch": n, "accepted": nOK, "rejected": nBad, "rounds": rounds, "first": c06Abbrev(exp[0].text)}
		})
	})
}
