package snapcache_test

// C24 — Typha clients converge to the datastore view from any join point (layer 1: snapshot cache).
//
// External harness over snapcache.New / OnUpdates / OnStatusUpdated / Start / CurrentBreadcrumb /
// Breadcrumb.Next.  The upstream stream is generated in *rounds*; every round ends with an update to
// a reserved sentinel key (a deletion: the cache never squashes deletions), so the crumb
// that carries the sentinel delta marks "everything pushed so far has been processed" without any
// sleep.  In "prefill" mode the cache's goroutine is not running while a round is pushed into its
// input channel (then Start, wait for the sentinel, cancel, wait for Done), which makes the batching
// deterministic; in "live" mode the goroutine runs throughout (scheduler-dependent batching, same
// outcome oracle).
//
// Simulated clients (one per crumb = every possible join point) do what syncserver does for a real
// client: take the join crumb's KVs, then its SyncStatus, then for every later crumb its Deltas
// followed by its SyncStatus.  Every serialized update is decoded with SerializedUpdate.ToUpdate
// (what syncclient does) and compared to the value the harness sent.
//
// Oracle (from the statement):
//  1. at every quiescent point, every client's view == fold of everything pushed so far;
//  2. per key a client never sees an older value after a newer one (sets carry the position at
//     which their value was first sent; deletions are matched greedily to upstream deletions);
//  3. whenever a client is told InSync its view is, for every key, at least as new as the state at
//     the upstream InSync call that this status can stem from.

import (
	"bytes"
	"context"
	"encoding/gob"
	"errors"
	"fmt"
	"os"
	"reflect"
	"sort"
	"strconv"
	"strings"
	"testing"
	"time"

	"github.com/golang/snappy"
	metav1 "k8s.io/apimachinery/pkg/apis/meta/v1"
	"pgregory.net/rapid"

	"github.com/projectcalico/calico/lib/std/uniquelabels"
	"github.com/projectcalico/calico/libcalico-go/lib/apis/internalapi"
	"github.com/projectcalico/calico/libcalico-go/lib/backend/api"
	"github.com/projectcalico/calico/libcalico-go/lib/backend/model"
	"github.com/projectcalico/calico/typha/pkg/snapcache"
	"github.com/projectcalico/calico/typha/pkg/syncproto"
	"github.com/projectcalico/calico/typha/pkg/syncserver"
	"github.com/projectcalico/calico/verifkit/ev"
)

const c24SentinelIdx = 5
const c24TickIdx = 6

const c24Deadline = 120 * time.Second

var c24Keys = []model.Key{
	model.HostConfigKey{Hostname: "n1", Name: "a"},
	model.HostConfigKey{Hostname: "n1", Name: "b"},
	model.WorkloadEndpointKey{Hostname: "n1", OrchestratorID: "k8s", WorkloadID: "ns/pod0", EndpointID: "eth0"},
	model.WorkloadEndpointKey{Hostname: "n2", OrchestratorID: "k8s", WorkloadID: "ns/pod1", EndpointID: "eth0"},
	model.ResourceKey{Kind: internalapi.KindNode, Name: "node1"},
	model.HostConfigKey{Hostname: "verif", Name: "sentinel"}, // c24SentinelIdx
	model.HostConfigKey{Hostname: "verif", Name: "tick"},     // c24TickIdx (wire layer only)
}

var c24KeyNames = []string{"hA", "hB", "w0", "w1", "nd", "SENT", "TICK"}

func c24Paths() []string {
	ps := make([]string, len(c24Keys))
	for i, k := range c24Keys {
		p, err := model.KeyToDefaultPath(k)
		if err != nil {
			panic(err)
		}
		ps[i] = p
	}
	return ps
}

// c24Value builds a fresh value object for key idx carrying tag (the position at which this value
// was first sent) and, for v3 resources, a resource version.
func c24Value(idx, tag, rev int) any {
	ts := "t" + strconv.Itoa(tag)
	switch c24Keys[idx].(type) {
	case model.HostConfigKey:
		return ts
	case model.WorkloadEndpointKey:
		return &model.WorkloadEndpoint{
			State:      "active",
			Name:       "cali" + ts,
			ProfileIDs: []string{"prof-a", "prof-" + ts},
			Labels:     uniquelabels.Make(map[string]string{"tag": ts, "app": "x"}),
		}
	case model.ResourceKey:
		return &internalapi.Node{
			ObjectMeta: metav1.ObjectMeta{
				Name:            "node1",
				ResourceVersion: strconv.Itoa(rev),
				Labels:          map[string]string{"tag": ts},
			},
			Spec: internalapi.NodeSpec{IPv4VXLANTunnelAddr: "10.0.0." + strconv.Itoa(tag%250+1)},
		}
	}
	panic("unknown key kind")
}

// c24TagOf extracts the tag from a decoded value; ok=false if the value has an unexpected shape.
func c24TagOf(v any) (int, bool) {
	var ts string
	switch v := v.(type) {
	case string:
		ts = v
	case *model.WorkloadEndpoint:
		if v == nil {
			return 0, false
		}
		ts, _ = v.Labels.GetString("tag")
	case *internalapi.Node:
		if v == nil {
			return 0, false
		}
		ts = v.Labels["tag"]
	default:
		return 0, false
	}
	if !strings.HasPrefix(ts, "t") {
		return 0, false
	}
	n, err := strconv.Atoi(ts[1:])
	return n, err == nil
}

func c24ZeroRV(v any) any {
	if n, ok := v.(*internalapi.Node); ok {
		cp := n.DeepCopy()
		cp.ResourceVersion = ""
		return cp
	}
	return v
}

// c24Obs is one decoded key/value notification as a client sees it.
type c24Obs struct {
	idx int
	del bool
	tag int
	ut  api.UpdateType
}

func (o c24Obs) String() string {
	if o.del {
		return fmt.Sprintf("%s=<nil>(%v)", c24KeyNames[o.idx], o.ut)
	}
	return fmt.Sprintf("%s=t%d(%v)", c24KeyNames[o.idx], o.tag, o.ut)
}

// c24Event is one upstream update in the order sent (pos is 1-based and global).
type c24Event struct {
	pos int
	idx int
	del bool
	tag int // for sets: position at which this value was first sent (== pos unless a repeat)
}

type c24Client struct {
	joinSeq uint64
	view    map[int]int // key idx -> tag
	lo      map[int]int // per key: lower bound of the upstream position the client has reached
	loDel   map[int]bool
	seen    []string
	binary  bool // joined through the pre-calculated binary snapshot
}

type c24Crumb struct {
	crumb  *snapcache.Breadcrumb
	round  int
	kvs    []c24Obs
	deltas []c24Obs
	// For crumbs whose status is InSync: the in-sync bound, fixed when the crumb is collected (a
	// client may get to this crumb later, e.g. one that joined through a cached binary snapshot).
	inSyncP       int
	inSyncNontriv bool
}

type c24Case struct {
	t       *rapid.T
	paths   []string
	pathIdx map[string]int

	cache  *snapcache.Cache
	events []c24Event         // all update events
	byKey  map[int][]c24Event // per key
	model  map[int]int        // key idx -> tag (current upstream view)
	pos    int
	rev    int

	// status bookkeeping
	lastStatus      api.SyncStatus // upstream's most recent status call
	lastStatusAtPos int            // number of update events before that call
	// per-round
	round               int
	statusBeforeRound   api.SyncStatus
	statusBeforeAtPos   int
	firstInSyncInRound  int // atPos of the first InSync call in the current round, -1 if none
	history             []string
	crumbs              []*c24Crumb
	clients             []*c24Client
	overwriteAfterJoin  bool
	inSyncRuleEvaluated int
	inSyncRuleNontriv   int
	sentinelsSeen       int
	binSnaps            *syncserver.SnappySnapshotCache
	binSnapOutstanding  bool // a binary snapshot was requested since the newest crumb was published
	abortedSinceCrumb   bool // ... and its first requester was torn down
	classes             map[string]bool
}

func (c *c24Case) hist(f string, a ...any) { c.history = append(c.history, fmt.Sprintf(f, a...)) }

func (c *c24Case) fail(f string, a ...any) {
	c.t.Fatalf("C24 violated: %s\nhistory:\n  %s", fmt.Sprintf(f, a...), strings.Join(c.history, "\n  "))
}

// decode turns a serialized update into an observation, checking that the key and value are
// exactly what the harness sent for that tag (revision / resource version are not compared).
func (c *c24Case) decode(su syncproto.SerializedUpdate, where string) c24Obs {
	upd, err := su.ToUpdate()
	if err != nil {
		c.fail("%s: client cannot decode %v: %v", where, su, err)
	}
	p, err := model.KeyToDefaultPath(upd.Key)
	if err != nil {
		c.fail("%s: decoded key %v has no path: %v", where, upd.Key, err)
	}
	idx, ok := c.pathIdx[p]
	if !ok || !reflect.DeepEqual(upd.Key, c24Keys[idx]) {
		c.fail("%s: client decoded key %#v (path %s) which is not a key that was sent", where, upd.Key, p)
	}
	if upd.Value == nil {
		return c24Obs{idx: idx, del: true, ut: upd.UpdateType}
	}
	tag, ok := c24TagOf(upd.Value)
	if !ok {
		c.fail("%s: client decoded %s to an unexpected value %#v", where, c24KeyNames[idx], upd.Value)
	}
	want := c24Value(idx, tag, 0)
	if !reflect.DeepEqual(c24ZeroRV(upd.Value), c24ZeroRV(want)) {
		c.fail("%s: client decoded %s to %+v, but the value sent with tag t%d was %+v", where, c24KeyNames[idx], upd.Value, tag, want)
	}
	return c24Obs{idx: idx, tag: tag, ut: upd.UpdateType}
}

func (c *c24Case) pushUpdates(us []api.Update, desc []string) {
	c.hist("r%d OnUpdates[%s]", c.round, strings.Join(desc, " "))
	c.cache.OnUpdates(us)
}

func (c *c24Case) pushStatus(st api.SyncStatus) {
	c.hist("r%d OnStatusUpdated(%v) after %d updates", c.round, st, c.pos)
	c.lastStatus = st
	c.lastStatusAtPos = c.pos
	if st == api.InSync && c.firstInSyncInRound < 0 {
		c.firstInSyncInRound = c.pos
	}
	c.cache.OnStatusUpdated(st)
}

// genUpdate draws one upstream update and records it in the model.
func (c *c24Case) genUpdate(t *rapid.T) (api.Update, string) {
	idx := rapid.IntRange(0, c24SentinelIdx-1).Draw(t, "key")
	kind := rapid.SampledFrom([]string{"set", "set", "set", "repeat", "repeat", "del", "del", "nilNew", "nilUpd", "revert"}).Draw(t, "kind")
	return c.mkUpdate(idx, kind, 0)
}

// mkUpdate builds one upstream update of the given kind for key idx and records it.  Kinds: set (a
// fresh value), setTag (the value identified by tag, i.e. a value this key had before), revert (the
// value the key had before its current one, if any, else set), repeat (current value, new
// revision), del, nilNew / nilUpd (validation failures: nil value with New / Updated type).
func (c *c24Case) mkUpdate(idx int, kind string, tag int) (api.Update, string) {
	cur, present := c.model[idx]
	if kind == "repeat" && !present {
		kind = "set"
	}
	if kind == "revert" {
		// Most recent earlier value of this key that differs from the current one.
		kind = "set"
		for i := len(c.byKey[idx]) - 1; i >= 0; i-- {
			if e := c.byKey[idx][i]; !e.del && (!present || e.tag != cur) {
				kind, tag = "setTag", e.tag
				break
			}
		}
	}
	c.pos++
	c.rev++
	e := c24Event{pos: c.pos, idx: idx}
	u := api.Update{KVPair: model.KVPair{Key: c24Keys[idx], Revision: strconv.Itoa(c.rev)}}
	note := ""
	switch kind {
	case "set", "setTag":
		e.tag = c.pos
		if kind == "setTag" {
			e.tag = tag
			note = "(earlier value)"
			c.classes["value-returns-to-earlier-value"] = true
		}
		u.Value = c24Value(idx, e.tag, c.rev)
		u.UpdateType = api.UpdateTypeKVNew
		if present {
			u.UpdateType = api.UpdateTypeKVUpdated
		}
		c.model[idx] = e.tag
	case "repeat":
		// Same value, new revision / resource version: the cache may squash it.
		e.tag = cur
		u.Value = c24Value(idx, cur, c.rev)
		u.UpdateType = api.UpdateTypeKVUpdated
		c.classes["noop-repeat"] = true
		note = "(repeat)"
	case "del":
		e.del = true
		u.UpdateType = api.UpdateTypeKVDeleted
		if !present {
			c.classes["delete-unknown-key"] = true
		}
		delete(c.model, idx)
	case "nilNew", "nilUpd":
		// Validation failure as passed on by the validation filter: nil value, New/Updated type.
		e.del = true
		u.UpdateType = api.UpdateTypeKVNew
		if kind == "nilUpd" {
			u.UpdateType = api.UpdateTypeKVUpdated
		}
		c.classes["validation-nil"] = true
		delete(c.model, idx)
	default:
		panic("unknown update kind " + kind)
	}
	c.events = append(c.events, e)
	c.byKey[idx] = append(c.byKey[idx], e)
	d := fmt.Sprintf("%d:%s=t%d%s", e.pos, c24KeyNames[idx], e.tag, note)
	if e.del {
		d = fmt.Sprintf("%d:%s=<nil>(%v)", e.pos, c24KeyNames[idx], u.UpdateType)
	}
	return u, d
}

// genFlap builds one OnUpdates slice of at most maxLen updates in which key idx (currently holding
// the value it had when the cache was last quiescent) leaves that value and comes back to it:
// set(other) .. set(published);  delete .. re-create(published);  other, published, other, published.
// Unrelated updates may sit in between.
func (c *c24Case) genFlap(t *rapid.T, idx, maxLen int) ([]api.Update, []string) {
	published := c.model[idx]
	var us []api.Update
	var desc []string
	add := func(u api.Update, d string) { us = append(us, u); desc = append(desc, d) }
	filler := func() {
		if len(us) < maxLen-1 && rapid.IntRange(0, 2).Draw(t, "filler") == 0 {
			other := rapid.IntRange(0, c24SentinelIdx-1).Filter(func(i int) bool { return i != idx }).Draw(t, "fillerKey")
			add(c.mkUpdate(other, rapid.SampledFrom([]string{"set", "del", "repeat"}).Draw(t, "fillerKind"), 0))
		}
	}
	shape := "away-back"
	if maxLen >= 4 {
		shape = rapid.SampledFrom([]string{"away-back", "away-back", "delete-recreate", "away-back-away-back"}).Draw(t, "flapShape")
	} else {
		shape = rapid.SampledFrom([]string{"away-back", "away-back", "delete-recreate"}).Draw(t, "flapShape")
	}
	switch shape {
	case "away-back":
		add(c.mkUpdate(idx, "set", 0))
		filler()
		add(c.mkUpdate(idx, "setTag", published))
	case "delete-recreate":
		add(c.mkUpdate(idx, rapid.SampledFrom([]string{"del", "nilUpd"}).Draw(t, "flapDelete"), 0))
		filler()
		add(c.mkUpdate(idx, "setTag", published))
	case "away-back-away-back":
		add(c.mkUpdate(idx, "set", 0))
		other := c.model[idx]
		add(c.mkUpdate(idx, "setTag", published))
		add(c.mkUpdate(idx, "setTag", other))
		add(c.mkUpdate(idx, "setTag", published))
	}
	return us, desc
}

// sentinel is a deletion of a key that never exists: the cache passes every deletion through
// ("we can't skip deletions even if we didn't have that key"), so it always yields a delta.
func (c *c24Case) sentinel() api.Update {
	c.pos++
	c.rev++
	e := c24Event{pos: c.pos, idx: c24SentinelIdx, del: true}
	c.events = append(c.events, e)
	c.byKey[c24SentinelIdx] = append(c.byKey[c24SentinelIdx], e)
	return api.Update{KVPair: model.KVPair{Key: c24Keys[c24SentinelIdx], Revision: strconv.Itoa(c.rev)}, UpdateType: api.UpdateTypeKVDeleted}
}

func c24Inconclusive(msg string) {
	fmt.Fprintln(os.Stderr, "VERIF-INCONCLUSIVE: "+msg)
	fmt.Println("VERIF-INCONCLUSIVE: " + msg)
	os.Exit(3)
}

// collectRound follows the crumb chain from the last known crumb until the crumb that carries this
// round's sentinel delta, decoding everything on the way.
func (c *c24Case) collectRound(sentinelTag int) {
	cur := c.crumbs[len(c.crumbs)-1].crumb
	for {
		// Next only re-checks its context when the cache broadcasts, so the deadline is enforced
		// from outside; on a deadline the process exits (inconclusive), so nothing is leaked.
		type res struct {
			b   *snapcache.Breadcrumb
			err error
		}
		ch := make(chan res, 1)
		go func(b *snapcache.Breadcrumb) {
			n, err := b.Next(context.Background())
			ch <- res{n, err}
		}(cur)
		var next *snapcache.Breadcrumb
		select {
		case r := <-ch:
			if r.err != nil {
				c24Inconclusive(fmt.Sprintf("C24 snapcache: Next failed: %v", r.err))
			}
			next = r.b
		case <-time.After(c24Deadline):
			c24Inconclusive(fmt.Sprintf("C24 snapcache: no crumb carrying sentinel #%d within %v", c.round, c24Deadline))
		}
		if next.SequenceNumber != cur.SequenceNumber+1 {
			c.fail("crumb after seq %d has seq %d", cur.SequenceNumber, next.SequenceNumber)
		}
		cc := &c24Crumb{crumb: next, round: c.round}
		where := fmt.Sprintf("crumb %d", next.SequenceNumber)
		found := false
		for _, su := range next.Deltas {
			o := c.decode(su, where+" delta")
			cc.deltas = append(cc.deltas, o)
			if o.idx == c24SentinelIdx && o.del {
				c.sentinelsSeen++
				if c.sentinelsSeen == c.round {
					found = true
				}
			}
		}
		next.KVs.Ascend(func(su syncproto.SerializedUpdate) bool {
			cc.kvs = append(cc.kvs, c.decode(su, where+" snapshot"))
			return true
		})
		c.crumbs = append(c.crumbs, cc)
		c.hist("   crumb %d status=%v deltas=%v snapshot=%v", next.SequenceNumber, next.SyncStatus, cc.deltas, cc.kvs)
		c.advanceClients(cc)
		cur = next
		if found {
			return
		}
	}
}

func (c *c24Case) join(cc *c24Crumb) *c24Client {
	cl := &c24Client{joinSeq: cc.crumb.SequenceNumber, view: map[int]int{}, lo: map[int]int{}, loDel: map[int]bool{}}
	for _, o := range cc.kvs {
		if o.del {
			c.fail("crumb %d snapshot contains a nil-valued entry for %s", cc.crumb.SequenceNumber, c24KeyNames[o.idx])
		}
		if _, dup := cl.view[o.idx]; dup {
			c.fail("crumb %d snapshot contains %s twice", cc.crumb.SequenceNumber, c24KeyNames[o.idx])
		}
		cl.view[o.idx] = o.tag
		// Lower bound of the upstream position this snapshot entry can stand for: the first time
		// upstream sent that value.
		for _, e := range c.byKey[o.idx] {
			if !e.del && e.tag == o.tag {
				cl.lo[o.idx] = e.pos
				break
			}
		}
	}
	return cl
}

// apply feeds one notification to a client and checks clause 2: the client's observations for a key
// must be matchable, in order, to upstream events of that key carrying the same value (a value may
// legitimately come back when upstream sets it again).  Greedy earliest matching is the most
// permissive, so a failure to match is a genuine "older state after newer".
func (c *c24Case) apply(cl *c24Client, o c24Obs, seq uint64) {
	name := c24KeyNames[o.idx]
	matched := -1
	for _, e := range c.byKey[o.idx] {
		if e.pos >= cl.lo[o.idx] && e.del == o.del && (o.del || e.tag == o.tag) {
			matched = e.pos
			break
		}
	}
	_, held := cl.view[o.idx]
	if !o.del {
		if matched < 0 {
			c.fail("client joined at crumb %d: at crumb %d it receives %s=t%d after it had already reached upstream position %d for that key, and upstream did not send that value at or after that position (older value after newer)",
				cl.joinSeq, seq, name, o.tag, cl.lo[o.idx])
		}
		if held && o.idx != c24SentinelIdx && cl.joinSeq > 0 {
			c.overwriteAfterJoin = true
		}
		cl.lo[o.idx] = matched
		cl.view[o.idx] = o.tag
		return
	}
	if matched < 0 {
		c.fail("client joined at crumb %d: at crumb %d it receives a deletion of %s although it had already reached upstream position %d for that key and no deletion was sent at or after that position (older state after newer)",
			cl.joinSeq, seq, name, cl.lo[o.idx])
	}
	if held && cl.joinSeq > 0 {
		c.overwriteAfterJoin = true
	}
	cl.lo[o.idx] = matched
	delete(cl.view, o.idx)
}

// inSyncBound returns p = the number of upstream updates that preceded the InSync call a crumb of
// this round can stem from.
func (c *c24Case) inSyncBound(cc *c24Crumb) int {
	if c.statusBeforeRound == api.InSync {
		return c.statusBeforeAtPos
	}
	if c.firstInSyncInRound < 0 {
		c.fail("crumb %d reports InSync but upstream was %v before round %d and sent no InSync in it",
			cc.crumb.SequenceNumber, c.statusBeforeRound, c.round)
	}
	return c.firstInSyncInRound
}

func (c *c24Case) checkInSync(cl *c24Client, cc *c24Crumb) {
	p := cc.inSyncP
	c.inSyncRuleEvaluated++
	nontriv := false
	for idx := range c24Keys {
		var last *c24Event
		for i := range c.byKey[idx] {
			e := &c.byKey[idx][i]
			if e.pos <= p {
				last = e
			}
		}
		if last == nil {
			continue
		}
		if cc.inSyncNontriv {
			nontriv = true
		}
		// The key reached the state it had at the InSync call at position `need`: the start of the
		// run of events (repeats, repeated deletes) that leave it in that state.
		evs := c.byKey[idx]
		li := 0
		for i := range evs {
			if &evs[i] == last {
				li = i
			}
		}
		need := last.pos
		for i := li - 1; i >= 0 && evs[i].del == last.del && (last.del || evs[i].tag == last.tag); i-- {
			need = evs[i].pos
		}
		// The client's state for the key must be one that upstream produced at or after `need`.
		x, held := cl.view[idx]
		ok := false
		for _, e := range evs {
			if e.pos >= need && e.del == !held && (!held || e.tag == x) {
				ok = true
				break
			}
		}
		if !ok && held {
			c.fail("client joined at crumb %d is told InSync at crumb %d holding %s=t%d, but upstream reported InSync after %d updates, when %s had already moved on (at position %d) and never returned to that value",
				cl.joinSeq, cc.crumb.SequenceNumber, c24KeyNames[idx], x, p, c24KeyNames[idx], need)
		}
		if !ok {
			c.fail("client joined at crumb %d is told InSync at crumb %d without %s, but upstream reported InSync after %d updates, when %s was present (since position %d) and it was not deleted at or after that",
				cl.joinSeq, cc.crumb.SequenceNumber, c24KeyNames[idx], p, c24KeyNames[idx], need)
		}
	}
	if nontriv {
		c.inSyncRuleNontriv++
	}
}

func (c *c24Case) advanceClients(cc *c24Crumb) {
	if cc.crumb.SyncStatus == api.InSync {
		cc.inSyncP = c.inSyncBound(cc)
		cc.inSyncNontriv = c.statusBeforeRound != api.InSync
	}
	for _, cl := range c.clients {
		for _, o := range cc.deltas {
			c.apply(cl, o, cc.crumb.SequenceNumber)
		}
		if cc.crumb.SyncStatus == api.InSync {
			c.checkInSync(cl, cc)
		}
	}
	// A new client joining exactly here.
	cl := c.join(cc)
	if cc.crumb.SyncStatus == api.InSync {
		c.checkInSync(cl, cc)
	}
	c.clients = append(c.clients, cl)
}

// ---- joining through the server's pre-calculated (shared, cached) binary snapshot -------------------

type c24NoDeadline struct{}

func (c24NoDeadline) SetWriteDeadline(time.Time) error { return nil }

// c24AbortingWriter stands for a connection that dies while the snapshot is being written to it: the
// n-th Write cancels the connection's context and fails.
type c24AbortingWriter struct {
	n      int
	cancel context.CancelFunc
}

func (w *c24AbortingWriter) Write(p []byte) (int, error) {
	w.n--
	if w.n <= 0 {
		w.cancel()
		return 0, errors.New("connection reset by peer (injected)")
	}
	return len(p), nil
}

// binaryJoin does what syncserver's connection.handle does for a client that supports compression:
// SendSnapshot on the shared SnappySnapshotCache, with that connection's context.  kind: "healthy",
// "deadBefore" (the connection's context is already cancelled when the snapshot is requested),
// "diesWriting" (the connection dies on its first or second write).  A healthy joiner decodes the
// stream like syncclient does, takes the crumb SendSnapshot returned as its position, is told that
// crumb's status and then follows every later crumb; it must hold the server's view (the cache is
// quiescent whenever this is called).
func (c *c24Case) binaryJoin(t *rapid.T, kind string) {
	ctx, cancel := context.WithCancel(context.Background())
	defer cancel()
	c.binSnapOutstanding = true
	switch kind {
	case "deadBefore":
		cancel()
		_, err := c.binSnaps.SendSnapshot(ctx, &bytes.Buffer{}, c24NoDeadline{})
		c.hist("   binary-snapshot join by a connection that is already dead -> %v", err)
		c.abortedSinceCrumb = true
		return
	case "diesWriting":
		w := &c24AbortingWriter{n: rapid.IntRange(1, 2).Draw(t, "diesAtWrite"), cancel: cancel}
		_, err := c.binSnaps.SendSnapshot(ctx, w, c24NoDeadline{})
		c.hist("   binary-snapshot join by a connection that dies while being sent the snapshot -> %v", err)
		if err != nil {
			c.abortedSinceCrumb = true
		}
		return
	}
	var buf bytes.Buffer
	crumb, err := c.binSnaps.SendSnapshot(ctx, &buf, c24NoDeadline{})
	if err != nil {
		c.fail("SendSnapshot to a healthy connection failed: %v", err)
	}
	// Decode: a fresh snappy stream of gob-encoded envelopes, ending with MsgDecoderRestart.
	dec := gob.NewDecoder(snappy.NewReader(&buf))
	var obs []c24Obs
	ended := false
	for !ended {
		var env syncproto.Envelope
		if err := dec.Decode(&env); err != nil {
			c.fail("binary snapshot for crumb %d does not decode: %v", crumb.SequenceNumber, err)
		}
		switch m := env.Message.(type) {
		case syncproto.MsgKVs:
			for _, su := range m.KVs {
				obs = append(obs, c.decode(su, fmt.Sprintf("binary snapshot of crumb %d", crumb.SequenceNumber)))
			}
		case syncproto.MsgDecoderRestart:
			ended = true
		default:
			c.fail("binary snapshot contains unexpected message %T", env.Message)
		}
	}
	at := -1
	for i, cc := range c.crumbs {
		if cc.crumb == crumb {
			at = i
		}
	}
	if at < 0 {
		c.fail("SendSnapshot returned crumb %d which is not one the cache published", crumb.SequenceNumber)
	}
	if c.abortedSinceCrumb {
		c.classes["binary-snapshot-join-after-aborted-requester"] = true
	}
	if at < len(c.crumbs)-1 {
		c.classes["binary-snapshot-older-than-current-crumb"] = true
	}
	c.classes["binary-snapshot-join"] = true
	c.hist("   binary-snapshot join: snapshot of crumb %d = %v", crumb.SequenceNumber, obs)
	cl := c.join(&c24Crumb{crumb: crumb, kvs: obs})
	cl.binary = true
	if crumb.SyncStatus == api.InSync {
		c.checkInSync(cl, c.crumbs[at])
	}
	for _, cc := range c.crumbs[at+1:] {
		for _, o := range cc.deltas {
			c.apply(cl, o, cc.crumb.SequenceNumber)
		}
		if cc.crumb.SyncStatus == api.InSync {
			c.checkInSync(cl, cc)
		}
	}
	c.clients = append(c.clients, cl)
	if got, want := c24FmtView(cl.view), c24FmtView(c.model); got != want {
		c.fail("a client that joined through the server's binary snapshot (of crumb %d) and read up to the current crumb holds %s but the server's current view is %s",
			crumb.SequenceNumber, got, want)
	}
}

// binaryJoins runs a generated burst of joins at a quiescent point.
func (c *c24Case) binaryJoins(t *rapid.T) string {
	n := rapid.IntRange(0, 3).Draw(t, "binaryJoins")
	rs := ""
	for i := 0; i < n; i++ {
		kind := rapid.SampledFrom([]string{"healthy", "healthy", "deadBefore", "diesWriting"}).Draw(t, "joinKind")
		c.binaryJoin(t, kind)
		rs += kind[:1]
	}
	return rs
}

func c24FmtView(m map[int]int) string {
	var ks []int
	for k := range m {
		ks = append(ks, k)
	}
	sort.Ints(ks)
	var parts []string
	for _, k := range ks {
		parts = append(parts, fmt.Sprintf("%s=t%d", c24KeyNames[k], m[k]))
	}
	return "{" + strings.Join(parts, " ") + "}"
}

func (c *c24Case) checkConverged() {
	want := c24FmtView(c.model)
	for _, cl := range c.clients {
		if got := c24FmtView(cl.view); got != want {
			how := ""
			if cl.binary {
				how = " through the server's binary snapshot"
			}
			c.fail("after round %d (cache quiescent) the client that joined at crumb %d%s holds %s but the server's current view is %s",
				c.round, cl.joinSeq, how, got, want)
		}
	}
}

func TestVerifC24SnapCache(t *testing.T) {
	ev.Quiet()
	rec := ev.New("C24", "snapcache",
		"rapid-generated rounds of upstream input to the real snapshot cache (MaxBatchSize 1..6): OnUpdates slices of 1..6 updates (set / return to an earlier value, incl. by construction a key leaving and returning to its published value within one breadcrumb / same-value-new-revision repeat / delete / delete of unknown key / nil-valued validation failure; HostConfig string values, WorkloadEndpoint structs, v3 Node resources) interleaved with status changes; each round ends with a sentinel update; prefill mode (goroutine stopped while the round is queued: deterministic batching) or live mode; one simulated client per crumb (= every join point) applying snapshot then deltas; plus bursts of joins through the real shared pre-calculated binary snapshot (healthy / connection already dead / connection dies while being sent it) at quiescent points. Non-trivial = a client that joined at a non-initial crumb later had a held key overwritten or deleted by a delta AND the in-sync rule was evaluated for a status that became InSync in that round with >=1 key constraint; distinct = distinct (mode,batch size,round item shapes)",
		"the crumb carrying a round's sentinel delta is the last crumb of that round (the cache processes its input channel in order)",
		"revision / resourceVersion-only changes are not part of the compared view (the cache squashes them by design)")
	defer rec.Write()
	paths := c24Paths()
	pathIdx := map[string]int{}
	for i, p := range paths {
		pathIdx[p] = i
	}
	rapid.Check(t, func(t *rapid.T) {
		maxBatch := rapid.IntRange(1, 6).Draw(t, "maxBatchSize")
		live := rapid.IntRange(0, 3).Draw(t, "liveMode") == 0
		c := &c24Case{
			t: t, paths: paths, pathIdx: pathIdx,
			byKey: map[int][]c24Event{}, model: map[int]int{}, classes: map[string]bool{},
			firstInSyncInRound: -1,
		}
		c.cache = snapcache.New(snapcache.Config{MaxBatchSize: maxBatch, WakeUpInterval: 1000 * time.Hour, Name: "c24"})
		first := c.cache.CurrentBreadcrumb()
		c0 := &c24Crumb{crumb: first}
		c.crumbs = append(c.crumbs, c0)
		c.clients = append(c.clients, c.join(c0))

		var liveCancel context.CancelFunc
		if live {
			var ctx context.Context
			ctx, liveCancel = context.WithCancel(context.Background())
			c.cache.Start(ctx)
			c.classes["live-mode"] = true
		}
		shape := []string{fmt.Sprintf("m%v/b%d", live, maxBatch)}
		// The server's shared pre-calculated snapshot.  Validity 1ms: a cached snapshot is dropped
		// once that has elapsed AND a newer crumb exists, so between two crumbs it is reused
		// deterministically.
		c.binSnaps = syncserver.NewSnappySnapCache("c24", c.cache, time.Millisecond, 10*time.Second)
		if rs := c.binaryJoins(t); rs != "" {
			shape = append(shape, "J"+rs)
		}
		rounds := rapid.IntRange(1, 6).Draw(t, "rounds")
		// (An extra, empty round at the end publishes one more crumb if a binary snapshot is still
		// cached, so that its expiry goroutine can finish.)
		for r := 1; r <= rounds || c.binSnapOutstanding; r++ {
			c.round = r
			c.statusBeforeRound = c.lastStatus
			c.statusBeforeAtPos = c.lastStatusAtPos
			c.firstInSyncInRound = -1
			// The input channel holds 2*MaxBatchSize items; in prefill mode nobody drains it while we
			// push, so a round is at most 2*MaxBatchSize-1 items plus the sentinel.
			maxItems := 2*maxBatch - 1
			if live {
				maxItems = 8
			}
			nItems := 0
			if r <= rounds {
				nItems = rapid.IntRange(0, maxItems).Draw(t, "items")
			}
			rs := ""
			// A key that holds a published value (the cache was quiescent at the end of the last
			// round) leaves it and returns to it within the first OnUpdates call of this round.  In
			// prefill mode with len <= MaxBatchSize the whole slice lands in one breadcrumb.
			var flapKeys []int
			for idx := 0; idx < c24SentinelIdx; idx++ {
				if _, ok := c.model[idx]; ok {
					flapKeys = append(flapKeys, idx)
				}
			}
			flapFirst := nItems > 0 && maxBatch >= 2 && len(flapKeys) > 0 && rapid.IntRange(0, 2).Draw(t, "flapFirst") == 0
			for i := 0; i < nItems; i++ {
				if i == 0 && flapFirst {
					idx := rapid.SampledFrom(flapKeys).Draw(t, "flapKey")
					us, desc := c.genFlap(t, idx, maxBatch)
					c.pushUpdates(us, desc)
					rs += fmt.Sprintf("F%d", len(us))
					if !live {
						c.classes["key-flaps-back-to-published-value-within-one-crumb"] = true
					} else {
						c.classes["key-flaps-back-to-published-value-within-one-call"] = true
					}
					continue
				}
				if rapid.IntRange(0, 3).Draw(t, "isStatus") == 0 {
					st := rapid.SampledFrom([]api.SyncStatus{api.InSync, api.InSync, api.ResyncInProgress, api.WaitForDatastore}).Draw(t, "status")
					c.pushStatus(st)
					rs += "T" + st.String()[:1]
					continue
				}
				n := rapid.IntRange(1, 6).Draw(t, "numUpdates")
				var us []api.Update
				var desc []string
				for j := 0; j < n; j++ {
					u, d := c.genUpdate(t)
					us = append(us, u)
					desc = append(desc, d)
				}
				c.pushUpdates(us, desc)
				rs += fmt.Sprintf("U%d", n)
				if n > maxBatch {
					c.classes["slice-larger-than-batch"] = true
				}
			}
			s := c.sentinel()
			c.hist("r%d OnUpdates[%d:SENT=<nil>]", r, c.pos)
			c.cache.OnUpdates([]api.Update{s})
			shape = append(shape, rs)

			var cancel context.CancelFunc
			if !live {
				var ctx context.Context
				ctx, cancel = context.WithCancel(context.Background())
				c.cache.Start(ctx)
			}
			before := len(c.crumbs)
			c.collectRound(c.pos)
			if !live {
				cancel()
				select {
				case <-c.cache.Done:
				case <-time.After(c24Deadline):
					c24Inconclusive("C24 snapcache: cache loop did not stop within 120s of cancel")
				}
			}
			if len(c.crumbs)-before > 1 {
				c.classes["multi-crumb-round"] = true
			}
			c.checkConverged()
			c.binSnapOutstanding, c.abortedSinceCrumb = false, false
			if r < rounds {
				if js := c.binaryJoins(t); js != "" {
					shape = append(shape, "J"+js)
				}
			}
		}
		if live {
			liveCancel()
			select {
			case <-c.cache.Done:
			case <-time.After(c24Deadline):
				c24Inconclusive("C24 snapcache: cache loop did not stop within 120s of cancel")
			}
		}
		if c.inSyncRuleNontriv > 0 {
			c.classes["in-sync-rule-nontrivial"] = true
		}
		if c.overwriteAfterJoin {
			c.classes["overwrite-after-join"] = true
		}
		var classes []string
		for k := range c.classes {
			classes = append(classes, k)
		}
		sort.Strings(classes)
		key := strings.Join(shape, "|")
		rec.SizedCase(c.overwriteAfterJoin && c.inSyncRuleNontriv > 0, key, len(c.events), func() any {
			return map[string]any{"shape": key, "history": c.history}
		}, classes...)
	})
}

// TestVerifC24Serialize: the wire form a client decodes is the update that was serialized, and
// WouldBeNoOp (which lets the cache drop a delta) only says yes when nothing but revisions differ.
func TestVerifC24Serialize(t *testing.T) {
	ev.Quiet()
	rec := ev.New("C24", "serialize",
		"pairs of generated updates for the same key (string, WorkloadEndpoint, v3 Node values; nil values; all update types; TTLs) through SerializeUpdate -> ToUpdate and WouldBeNoOp. Non-trivial = the pair differs only in revision/resourceVersion or only in value; distinct = (key kind, kinds of both updates)",
		"values are in canonical form (nil rather than empty slices), as produced by the JSON-decoding datastore clients")
	defer rec.Write()
	rapid.Check(t, func(t *rapid.T) {
		idx := rapid.IntRange(0, c24SentinelIdx-1).Draw(t, "key")
		mk := func(label string) (api.Update, int, bool) {
			tag := rapid.IntRange(1, 3).Draw(t, label+"Tag")
			rev := rapid.IntRange(1, 3).Draw(t, label+"Rev")
			isNil := rapid.IntRange(0, 4).Draw(t, label+"Nil") == 0
			ut := rapid.SampledFrom([]api.UpdateType{api.UpdateTypeKVNew, api.UpdateTypeKVUpdated, api.UpdateTypeKVDeleted}).Draw(t, label+"Type")
			ttl := time.Duration(rapid.SampledFrom([]int{0, 0, 0, 5}).Draw(t, label+"TTL")) * time.Second
			u := api.Update{KVPair: model.KVPair{Key: c24Keys[idx], Revision: strconv.Itoa(rev), TTL: ttl}, UpdateType: ut}
			if !isNil {
				u.Value = c24Value(idx, tag, rev)
			}
			return u, tag, isNil
		}
		a, aTag, aNil := mk("a")
		b, bTag, bNil := mk("b")
		sa, err := syncproto.SerializeUpdate(a)
		if err != nil {
			t.Fatalf("SerializeUpdate(%v): %v", a, err)
		}
		sb, err := syncproto.SerializeUpdate(b)
		if err != nil {
			t.Fatalf("SerializeUpdate(%v): %v", b, err)
		}
		// Input object must be left as it was (it is shared with other consumers of the syncer).
		if !aNil && !reflect.DeepEqual(a.Value, c24Value(idx, aTag, c24MustAtoi(a.Revision))) {
			t.Fatalf("SerializeUpdate modified its input: %+v", a.Value)
		}
		back, err := sa.ToUpdate()
		if err != nil {
			t.Fatalf("ToUpdate(%v): %v", sa, err)
		}
		if !reflect.DeepEqual(back.Key, a.Key) {
			t.Fatalf("round trip changed key %#v -> %#v", a.Key, back.Key)
		}
		if !reflect.DeepEqual(back.Value, a.Value) {
			t.Fatalf("round trip changed value %+v -> %+v", a.Value, back.Value)
		}
		if back.UpdateType != a.UpdateType || back.TTL != a.TTL || back.Revision != a.Revision {
			t.Fatalf("round trip changed metadata: sent %v/%v/%v got %v/%v/%v", a.UpdateType, a.TTL, a.Revision, back.UpdateType, back.TTL, back.Revision)
		}
		sameValue := aNil == bNil && (aNil || aTag == bTag)
		noop := sb.WouldBeNoOp(sa)
		if noop && !sameValue {
			t.Fatalf("WouldBeNoOp says sending %v after %v changes nothing, but the values differ (a delta would be lost)", sb, sa)
		}
		if noop && a.TTL != b.TTL {
			t.Fatalf("WouldBeNoOp says sending %v after %v changes nothing, but the TTLs differ", sb, sa)
		}
		nt := (sameValue && !aNil && a.Revision != b.Revision) || (!sameValue && a.UpdateType == b.UpdateType && a.TTL == b.TTL)
		cls := "value-differs"
		if sameValue {
			cls = "value-same"
		}
		if noop {
			cls += "/noop"
		}
		key := fmt.Sprintf("k%d a(%v,%v,%v) b(%v,%v,%v) same=%v rev=%v", idx, aNil, a.UpdateType, a.TTL, bNil, b.UpdateType, b.TTL, sameValue, a.Revision == b.Revision)
		rec.Case(nt, key, func() any { return map[string]any{"a": sa.String(), "b": sb.String(), "noop": noop} }, cls)
	})
}

func c24MustAtoi(v any) int {
	n, err := strconv.Atoi(fmt.Sprint(v))
	if err != nil {
		panic(err)
	}
	return n
}
