package snapcache_test

// C24 layer 2 (supplement): the real syncserver and syncclient over a loopback TCP connection, fed by
// the real snapshot cache.  Real goroutines and sockets: the schedule is not owned, so the oracle is
// on the client-side callbacks only and is schedule-independent.  Uses the key/value helpers of
// verif_c24_test.go.
//
// A whole upstream stream is generated up front: ResyncInProgress, updates, exactly one InSync at a
// generated point, more updates.  After the stream the harness keeps pushing "ticks" (alternating
// set / delete of a reserved key, neither of which the cache can squash; the key sorts after all
// others in a snapshot).  Cache -> server -> client is FIFO per client, so when a client receives
// any tick notification it has been sent everything that belongs to the stream.
// Clients are started at generated points of the stream (before, in the middle, after), some with a
// slow callback, with or without decoder-restart support (i.e. compressed pre-computed snapshot or
// streamed snapshot).  For each client, on its SyncerCallbacks:
//  1. at the moment it receives a tick its folded view == fold of the stream;
//  2. per key it never sees an older value after a newer one;
//  3. when it is told InSync its view is at least as new as the stream's state at the InSync call.
// A wait beyond the deadline ends the run as VERIF-INCONCLUSIVE.

import (
	"context"
	"fmt"
	"reflect"
	"sort"
	"strconv"
	"strings"
	"sync"
	"testing"
	"time"

	"pgregory.net/rapid"

	"github.com/projectcalico/calico/libcalico-go/lib/backend/api"
	"github.com/projectcalico/calico/libcalico-go/lib/backend/model"
	"github.com/projectcalico/calico/typha/pkg/discovery"
	"github.com/projectcalico/calico/typha/pkg/snapcache"
	"github.com/projectcalico/calico/typha/pkg/syncclient"
	"github.com/projectcalico/calico/typha/pkg/syncproto"
	"github.com/projectcalico/calico/typha/pkg/syncserver"
	"github.com/projectcalico/calico/verifkit/ev"
)

type c24WireItem struct {
	status  *api.SyncStatus
	updates []api.Update
	desc    string
}

type c24WireStream struct {
	items     []c24WireItem
	byKey     map[int][]c24Event
	model     map[int]int
	inSyncPos int // number of update events before the InSync call
	lastPos   int
	lastRev   int
	want      string // c24FmtView of the final model
}

// c24WireClient is the SyncerCallbacks implementation handed to the real syncclient.
type c24WireClient struct {
	name    string
	stream  *c24WireStream
	pathIdx map[string]int
	delay   time.Duration

	mu         sync.Mutex
	view       map[int]int
	lo         map[int]int
	loDel      map[int]bool
	seen       []string
	violations []string
	toldInSync bool
	sawTick    chan struct{}
	tickOnce   sync.Once
	overwrote  bool
	tickSeen   bool
	fromSnap   int // number of KVs received before the first status other than ResyncInProgress
}

func (cl *c24WireClient) violate(f string, a ...any) {
	cl.violations = append(cl.violations, cl.name+": "+fmt.Sprintf(f, a...))
}

func (cl *c24WireClient) OnStatusUpdated(st api.SyncStatus) {
	if cl.delay > 0 {
		time.Sleep(cl.delay)
	}
	cl.mu.Lock()
	defer cl.mu.Unlock()
	cl.seen = append(cl.seen, "status:"+st.String())
	if st != api.InSync {
		return
	}
	cl.toldInSync = true
	p := cl.stream.inSyncPos
	for idx := range c24Keys {
		var last *c24Event
		evs := cl.stream.byKey[idx]
		for i := range evs {
			if evs[i].pos <= p {
				last = &evs[i]
			}
		}
		if last == nil {
			continue
		}
		need := last.pos
		if !last.del {
			need = last.tag
		}
		if x, held := cl.view[idx]; held {
			if x < need {
				cl.violate("told InSync holding %s=t%d, but upstream reported InSync after %d updates, when %s was already at position %d",
					c24KeyNames[idx], x, p, c24KeyNames[idx], need)
			}
			continue
		}
		ok := false
		for _, e := range evs {
			if e.del && e.pos >= need {
				ok = true
				break
			}
		}
		if !ok {
			cl.violate("told InSync without %s, but upstream reported InSync after %d updates, when %s=t%d was present and it is never deleted later",
				c24KeyNames[idx], p, c24KeyNames[idx], need)
		}
	}
}

func (cl *c24WireClient) OnUpdates(us []api.Update) {
	if cl.delay > 0 {
		time.Sleep(cl.delay)
	}
	cl.mu.Lock()
	defer cl.mu.Unlock()
	for _, u := range us {
		p, err := model.KeyToDefaultPath(u.Key)
		if err != nil {
			cl.violate("received key %v without a path: %v", u.Key, err)
			continue
		}
		idx, ok := cl.pathIdx[p]
		if !ok || !reflect.DeepEqual(u.Key, c24Keys[idx]) {
			cl.violate("received key %#v which was never sent", u.Key)
			continue
		}
		name := c24KeyNames[idx]
		if idx == c24TickIdx {
			// Everything of the stream precedes any tick.
			cl.seen = append(cl.seen, "TICK")
			if got := c24FmtView(cl.view); got != cl.stream.want && !cl.tickSeen {
				cl.violate("has been sent everything up to a tick that follows the end of the stream but holds %s; the server's view is %s", got, cl.stream.want)
			}
			cl.tickSeen = true
			cl.tickOnce.Do(func() { close(cl.sawTick) })
			continue
		}
		if u.Value == nil {
			cl.seen = append(cl.seen, name+"=<nil>")
			matched := -1
			for _, e := range cl.stream.byKey[idx] {
				if e.del && (e.pos > cl.lo[idx] || (e.pos == cl.lo[idx] && cl.loDel[idx])) {
					matched = e.pos
					break
				}
			}
			if matched < 0 {
				cl.violate("received a deletion of %s after having reached upstream position %d for it, and no later deletion exists in the stream (older state after newer)", name, cl.lo[idx])
				continue
			}
			if _, held := cl.view[idx]; held {
				cl.overwrote = true
			}
			cl.lo[idx], cl.loDel[idx] = matched, true
			delete(cl.view, idx)
			continue
		}
		tag, ok := c24TagOf(u.Value)
		if !ok || !reflect.DeepEqual(c24ZeroRV(u.Value), c24ZeroRV(c24Value(idx, tag, 0))) {
			cl.violate("received %s=%+v which is not a value that was sent", name, u.Value)
			continue
		}
		cl.seen = append(cl.seen, fmt.Sprintf("%s=t%d", name, tag))
		if tag < cl.lo[idx] {
			cl.violate("received %s=t%d after having reached upstream position %d for it (older value after newer)", name, tag, cl.lo[idx])
		}
		if _, held := cl.view[idx]; held {
			cl.overwrote = true
		}
		cl.lo[idx], cl.loDel[idx] = tag, false
		cl.view[idx] = tag
	}
}

func c24GenWireStream(t *rapid.T) *c24WireStream {
	s := &c24WireStream{byKey: map[int][]c24Event{}, model: map[int]int{}}
	pos, rev := 0, 0
	nItems := rapid.IntRange(1, 12).Draw(t, "items")
	inSyncAt := rapid.IntRange(0, nItems).Draw(t, "inSyncBeforeItem")
	resync := api.ResyncInProgress
	s.items = append(s.items, c24WireItem{status: &resync, desc: "status resync"})
	for i := 0; i <= nItems; i++ {
		if i == inSyncAt {
			st := api.InSync
			s.inSyncPos = pos
			s.items = append(s.items, c24WireItem{status: &st, desc: fmt.Sprintf("status in-sync after %d updates", pos)})
		}
		if i == nItems {
			break
		}
		n := rapid.IntRange(1, 5).Draw(t, "numUpdates")
		var us []api.Update
		var desc []string
		for j := 0; j < n; j++ {
			idx := rapid.IntRange(0, c24SentinelIdx-1).Draw(t, "key")
			kind := rapid.SampledFrom([]string{"set", "set", "set", "repeat", "del", "del", "nil"}).Draw(t, "kind")
			cur, present := s.model[idx]
			if kind == "repeat" && !present {
				kind = "set"
			}
			pos++
			rev++
			e := c24Event{pos: pos, idx: idx}
			u := api.Update{KVPair: model.KVPair{Key: c24Keys[idx], Revision: strconv.Itoa(rev)}}
			switch kind {
			case "set":
				e.tag = pos
				u.Value = c24Value(idx, pos, rev)
				u.UpdateType = api.UpdateTypeKVNew
				if present {
					u.UpdateType = api.UpdateTypeKVUpdated
				}
				s.model[idx] = pos
				desc = append(desc, fmt.Sprintf("%d:%s=t%d", pos, c24KeyNames[idx], pos))
			case "repeat":
				e.tag = cur
				u.Value = c24Value(idx, cur, rev)
				u.UpdateType = api.UpdateTypeKVUpdated
				desc = append(desc, fmt.Sprintf("%d:%s=t%d(repeat)", pos, c24KeyNames[idx], cur))
			case "del", "nil":
				e.del = true
				u.UpdateType = api.UpdateTypeKVDeleted
				if kind == "nil" {
					u.UpdateType = api.UpdateTypeKVUpdated
				}
				delete(s.model, idx)
				desc = append(desc, fmt.Sprintf("%d:%s=<nil>", pos, c24KeyNames[idx]))
			}
			s.byKey[idx] = append(s.byKey[idx], e)
			us = append(us, u)
		}
		s.items = append(s.items, c24WireItem{updates: us, desc: "updates " + strings.Join(desc, " ")})
	}
	s.lastPos, s.lastRev = pos, rev
	return s
}

func TestVerifC24Wire(t *testing.T) {
	ev.Quiet()
	rec := ev.New("C24", "wire",
		"real snapcache + syncserver + syncclient over loopback TCP: a generated stream (resync, update slices with sets / same-value repeats / deletes / nil-valued failures, one InSync at a generated point, then ticks until every client has caught up) is pushed while 1..3 clients are started at generated points (before / mid-stream / after the end), some with a 300us-per-callback slow reader, with or without decoder-restart (compressed pre-computed snapshot vs streamed snapshot), MaxMessageSize 1..3 or default, cache batch size 1..4, coalescing threshold minimal or default. Non-trivial = some client joined mid-stream (after >=1 and before all update items), received >=1 key in its snapshot and later had a held key overwritten or deleted; distinct = (join points, options, item shapes)",
		"exactly one upstream InSync per stream, so the in-sync bound is unambiguous",
		"deadline 120s per client => VERIF-INCONCLUSIVE")
	defer rec.Write()
	paths := c24Paths()
	pathIdx := map[string]int{}
	for i, p := range paths {
		pathIdx[p] = i
	}
	rapid.Check(t, func(t *rapid.T) {
		stream := c24GenWireStream(t)
		stream.want = c24FmtView(stream.model)
		maxBatch := rapid.IntRange(1, 4).Draw(t, "cacheMaxBatchSize")
		cfg := syncserver.Config{
			Port:         syncserver.PortRandom,
			Host:         "127.0.0.1",
			PingInterval: 10 * time.Second,
			DropInterval: 50 * time.Millisecond,
		}
		if rapid.Bool().Draw(t, "smallMessages") {
			cfg.MaxMessageSize = rapid.IntRange(1, 3).Draw(t, "maxMessageSize")
		}
		if rapid.Bool().Draw(t, "alwaysCoalesce") {
			cfg.MinBatchingAgeThreshold = time.Nanosecond
		}
		nClients := rapid.IntRange(1, 3).Draw(t, "clients")
		type clientPlan struct {
			joinAt    int
			slow      bool
			noRestart bool
		}
		var plans []clientPlan
		for i := 0; i < nClients; i++ {
			lo, hi := 0, len(stream.items)
			if i == 0 && len(stream.items) >= 5 {
				// Make the interesting class common: the first client joins mid-stream.
				lo, hi = 2, len(stream.items)-2
			}
			plans = append(plans, clientPlan{
				joinAt:    rapid.IntRange(lo, hi).Draw(t, "joinBeforeItem"),
				slow:      rapid.IntRange(0, 2).Draw(t, "slowReader") == 0,
				noRestart: rapid.Bool().Draw(t, "disableDecoderRestart"),
			})
		}

		cache := snapcache.New(snapcache.Config{MaxBatchSize: maxBatch, WakeUpInterval: 1000 * time.Hour, Name: "c24wire"})
		cacheCtx, cacheCancel := context.WithCancel(context.Background())
		cache.Start(cacheCtx)
		server := syncserver.New(map[syncproto.SyncerType]syncserver.BreadcrumbProvider{syncproto.SyncerTypeFelix: cache}, cfg)
		serverCtx, serverCancel := context.WithCancel(context.Background())
		server.Start(serverCtx)
		addr := fmt.Sprintf("127.0.0.1:%d", server.Port())

		type running struct {
			cl     *c24WireClient
			client *syncclient.SyncerClient
			cancel context.CancelFunc
			plan   clientPlan
		}
		var clients []*running
		// pushTick sends the next tick (alternating set / delete of the tick key) into the cache.
		tickPos, tickRev, tickN := stream.lastPos, stream.lastRev, 0
		pushTick := func() {
			tickPos++
			tickRev++
			u := api.Update{KVPair: model.KVPair{Key: c24Keys[c24TickIdx], Revision: strconv.Itoa(tickRev)}, UpdateType: api.UpdateTypeKVDeleted}
			if tickN%2 == 0 {
				u.Value = c24Value(c24TickIdx, tickPos, tickRev)
				u.UpdateType = api.UpdateTypeKVNew
			}
			tickN++
			cache.OnUpdates([]api.Update{u})
		}
		teardown := func() {
			done := make(chan struct{})
			go func() {
				for _, r := range clients {
					r.cancel()
				}
				for _, r := range clients {
					r.client.Finished.Wait()
				}
				serverCancel()
				// Per-connection goroutines blocked in Breadcrumb.Next only notice the cancelled
				// context when the cache broadcasts; the cache's wake-up ticker is set to (effectively)
				// never because the cache cannot stop it, so make it publish crumbs instead.
				fin := make(chan struct{})
				go func() { server.Finished.Wait(); close(fin) }()
			wake:
				for {
					select {
					case <-fin:
						break wake
					case <-time.After(time.Millisecond):
						pushTick()
					}
				}
				cacheCancel()
				<-cache.Done
				close(done)
			}()
			select {
			case <-done:
			case <-time.After(c24Deadline):
				c24Inconclusive("C24 wire: teardown did not finish within the deadline")
			}
		}
		defer teardown()

		startClients := func(at int) {
			for i, p := range plans {
				if p.joinAt != at {
					continue
				}
				cl := &c24WireClient{
					name: fmt.Sprintf("client%d(join before item %d, slow=%v, noDecoderRestart=%v)", i, p.joinAt, p.slow, p.noRestart),
					stream: stream, pathIdx: pathIdx,
					view: map[int]int{}, lo: map[int]int{}, loDel: map[int]bool{}, sawTick: make(chan struct{}),
				}
				if p.slow {
					cl.delay = 300 * time.Microsecond
				}
				ctx, cancel := context.WithCancel(context.Background())
				sc := syncclient.New(discovery.New(discovery.WithAddrOverride(addr)), "verif", fmt.Sprintf("verif-host-%d", i), "verif",
					cl, &syncclient.Options{SyncerType: syncproto.SyncerTypeFelix, DisableDecoderRestart: p.noRestart})
				if err := sc.Start(ctx); err != nil {
					cancel()
					c24Inconclusive(fmt.Sprintf("C24 wire: client could not connect to %s: %v", addr, err))
				}
				clients = append(clients, &running{cl: cl, client: sc, cancel: cancel, plan: p})
			}
		}

		var history []string
		for i, it := range stream.items {
			startClients(i)
			history = append(history, fmt.Sprintf("item %d: %s", i, it.desc))
			if it.status != nil {
				cache.OnStatusUpdated(*it.status)
			} else {
				cache.OnUpdates(it.updates)
			}
		}
		startClients(len(stream.items))

		// Ticks until every client has seen one.
		nontrivial := false
		var shape []string
		allTicked := func() bool {
			for _, r := range clients {
				select {
				case <-r.cl.sawTick:
				default:
					return false
				}
			}
			return true
		}
		for start := time.Now(); !allTicked(); {
			if time.Since(start) > c24Deadline {
				var states []string
				for _, r := range clients {
					r.cl.mu.Lock()
					states = append(states, r.cl.name+" saw: "+strings.Join(r.cl.seen, " "))
					r.cl.mu.Unlock()
				}
				c24Inconclusive(fmt.Sprintf("C24 wire: not every client received a tick within %v\nstream:\n  %s\n%s",
					c24Deadline, strings.Join(history, "\n  "), strings.Join(states, "\n")))
			}
			pushTick()
			for i := 0; i < 20 && !allTicked(); i++ {
				time.Sleep(250 * time.Microsecond)
			}
		}
		for _, r := range clients {
			r.cl.mu.Lock()
			got := c24FmtView(r.cl.view)
			viol := append([]string{}, r.cl.violations...)
			seen := strings.Join(r.cl.seen, " ")
			over := r.cl.overwrote
			r.cl.mu.Unlock()
			if len(viol) > 0 {
				t.Fatalf("C24 violated: %s\nstream:\n  %s\nclient saw: %s", strings.Join(viol, "; "), strings.Join(history, "\n  "), seen)
			}
			_ = got
			mid := r.plan.joinAt > 1 && r.plan.joinAt < len(stream.items)-1
			if mid && over {
				nontrivial = true
			}
			shape = append(shape, fmt.Sprintf("j%d/%v/%v", r.plan.joinAt, r.plan.slow, r.plan.noRestart))
		}
		sort.Strings(shape)
		var itemShape []string
		for _, it := range stream.items {
			if it.status != nil {
				itemShape = append(itemShape, "T")
			} else {
				itemShape = append(itemShape, fmt.Sprintf("U%d", len(it.updates)))
			}
		}
		classes := []string{}
		for _, r := range clients {
			switch {
			case r.plan.joinAt == 0:
				classes = append(classes, "client-joined-before-stream")
			case r.plan.joinAt >= len(stream.items):
				classes = append(classes, "client-joined-after-stream")
			default:
				classes = append(classes, "client-joined-mid-stream")
			}
			if r.plan.noRestart {
				classes = append(classes, "streamed-snapshot")
			} else {
				classes = append(classes, "compressed-snapshot")
			}
			if r.plan.slow {
				classes = append(classes, "slow-reader")
			}
		}
		key := fmt.Sprintf("b%d m%d c%v | %s | %s", maxBatch, cfg.MaxMessageSize, cfg.MinBatchingAgeThreshold, strings.Join(shape, ","), strings.Join(itemShape, ""))
		rec.SizedCase(nontrivial, key, len(stream.items), func() any {
			return map[string]any{"clients": shape, "stream": history}
		}, classes...)
	})
}
