package node

// C23 — the IPAM garbage collector never frees an address that is still in use.
//
// The real IPAMController is built without its goroutine and driven synchronously:
// handleUpdate() for block / node KVPairs and sync status, allocationState.markDirtyPodDeleted()
// and fullScanNextSync() for the informer callbacks, syncIPAM() for a GC pass.  The harness owns a
// small world (Kubernetes nodes, Calico nodes, pods as seen live and as seen by the informer
// cache, KubeVirt VMs/VMIs, IPAM blocks in the datastore and the ordered stream of block events
// the syncer delivers) and a recording IPAM client.  Time: the controller calls time.Now()
// directly, so the harness advances time by shifting every instant the controller has recorded
// (allocation.leakedAt, blockReleaseTracker.blocks) back by the step.
//
// Oracle (statement of C23; owner rules from design/ipam/ipam-gc.md):
//   R1  every address passed to ReleaseIPs is, at that moment, not justified by its owner
//       (pod on that node holding / about to hold the IP; VM or standalone VMI; node for tunnel
//       addresses; allocations with missing metadata, unknown source or the Windows reserved handle
//       are never released), and
//   R2  the applicable grace period has elapsed since the GC first observed it as leaked
//       (none when the node is gone; max(5m30s, leak grace) for VMs; the leak grace otherwise;
//       never when the leak grace is unset / zero);
//   R3  all addresses of a handle (in the blocks seen) are released in the same call, or none;
//   R4  ReleaseBlockAffinity only for a block seen empty, never a node's last block, and only after
//       the block was already empty at an earlier sync more than the grace period ago;
//       ReleaseHostAffinities only for nodes that no longer exist in Kubernetes;
//   R5  after every delivery and sync the controller's maps equal a from-scratch recomputation from
//       the blocks seen (minus what the controller itself released).

import (
	"context"
	"fmt"
	"sort"
	"strings"
	"testing"
	"time"

	apiv3 "github.com/projectcalico/api/pkg/apis/projectcalico/v3"
	v1 "k8s.io/api/core/v1"
	apierrors "k8s.io/apimachinery/pkg/api/errors"
	metav1 "k8s.io/apimachinery/pkg/apis/meta/v1"
	"k8s.io/apimachinery/pkg/runtime"
	"k8s.io/apimachinery/pkg/runtime/schema"
	k8sfake "k8s.io/client-go/kubernetes/fake"
	k8stesting "k8s.io/client-go/testing"
	"k8s.io/client-go/tools/cache"
	kubevirtv1 "kubevirt.io/api/core/v1"
	"pgregory.net/rapid"

	"github.com/projectcalico/calico/kube-controllers/pkg/config"
	"github.com/projectcalico/calico/libcalico-go/lib/apis/internalapi"
	bapi "github.com/projectcalico/calico/libcalico-go/lib/backend/api"
	"github.com/projectcalico/calico/libcalico-go/lib/backend/model"
	"github.com/projectcalico/calico/libcalico-go/lib/ipam"
	"github.com/projectcalico/calico/libcalico-go/lib/kubevirt"
	cnet "github.com/projectcalico/calico/libcalico-go/lib/net"
	"github.com/projectcalico/calico/verifkit/ev"
)

const (
	c23NS        = "ns"
	c23BlockSize = 4 // /30 blocks
	c23NumBlocks = 6

	// c23KnownAttrs is the signature of the finding "owner attributes rewritten in place (no
	// sequence number change) are not picked up by the GC's bookkeeping".
	c23KnownAttrs = "c23-owner-attrs-rewrite-not-tracked"

	// c23KnownOrder is the signature of the finding "the final re-validation and the per-handle
	// check share one loop over a Go map, so a handle can be released partially depending on
	// iteration order".
	c23KnownOrder = "c23-final-recheck-order-partial-handle"

	// c23KnownForeignQueued is the signature of the finding "a confirmed leak queued while its Calico
	// node was unknown survives the node's re-appearance as a non-Kubernetes node: the scan skips
	// such a node (ErrorNotKubernetes) without clearing the queue, and the final re-validation
	// still works with knode \"\"".
	c23KnownForeignQueued = "c23-queued-leak-survives-non-kubernetes-node-skip"

	// c23KnownStaleKnode is the signature of the finding "allocation.knode is only refreshed when the
	// node is scanned; after a node re-registers under the same name a queued confirmed leak can
	// still carry knode \"\", so the final re-validation treats a tunnel address as ownerless and
	// looks pods up in the (possibly lagging) cache instead of the API server".
	c23KnownStaleKnode = "c23-stale-knode-after-node-name-reuse"
)

type c23Alloc struct {
	IP        string
	Handle    string
	HasHandle bool
	Attrs     map[string]string
	Seq       uint64
}

type c23Block struct {
	CIDR   string
	K      int
	Aff    string // Calico node name, "" for none
	Allocs [c23BlockSize]*c23Alloc
	Seq    uint64
}

func (b *c23Block) count() int {
	n := 0
	for _, a := range b.Allocs {
		if a != nil {
			n++
		}
	}
	return n
}

type c23Pod struct {
	Node     string // Kubernetes node name
	IPs      []string
	Finished bool
	Evicted  bool
	Gen      int
}

type c23Event struct {
	cidr  string
	block *model.AllocationBlock // nil = delete
}

type c23World struct {
	kdd         bool
	k8sNodes    map[string]bool
	calicoNodes map[string]string // Calico node -> Kubernetes node name ("" = not a Kubernetes node)
	podsLive    map[string]*c23Pod
	podsCache   map[string]*c23Pod
	vms         map[string]bool
	vmis        map[string]bool // name -> has VM owner reference
	blocks      map[string]*c23Block
	events      []c23Event
	now         time.Duration
	leakGrace   *time.Duration
	vmGrace     time.Duration
	podGen      int
}

type c23SeenAlloc struct {
	ID, IP, Handle, Block string
	Attrs                 map[string]string
	Seq                   uint64
	leakedAt              *time.Duration
	noNode                bool
}

type c23SeenBlock struct {
	aff        string
	raw        int
	allocs     map[string]*c23SeenAlloc
	emptySince *time.Duration
}

type c23Env struct {
	w          *c23World
	c          *IPAMController
	podIdx     cache.Indexer
	nodeIdx    cache.Indexer
	vmIdx      cache.Indexer
	vmiIdx     cache.Indexer
	nodeClient *fakeNodeClient
	seen       map[string]*c23SeenBlock
	violations []string
	classes    map[string]bool
	hist       []string
	failMode   int // 0 none, 1 release only the first option and return an error, 2 fail everything
	releases   int
}

func c23Keys[V any](m map[string]V) []string {
	out := make([]string, 0, len(m))
	for k := range m {
		out = append(out, k)
	}
	sort.Strings(out)
	return out
}

func c23CIDR(k int) string { return fmt.Sprintf("10.0.%d.0/30", k) }
func c23IP(k, ord int) string {
	return fmt.Sprintf("10.0.%d.%d", k, ord)
}

func (w *c23World) calicoName(k8sNode string) string {
	if w.kdd {
		return k8sNode
	}
	return "c-" + k8sNode
}

// knodeFor mirrors kubernetesNodeForCalico on the world: (k8s node name, isKubernetes).
func (w *c23World) knodeFor(cnode string) (string, bool) {
	kn, ok := w.calicoNodes[cnode]
	if !ok {
		return "", true
	}
	if kn == "" {
		return "", false
	}
	return kn, true
}

func (w *c23World) toModel(b *c23Block) *model.AllocationBlock {
	mb := &model.AllocationBlock{
		CIDR:                        cnet.MustParseCIDR(b.CIDR),
		Allocations:                 make([]*int, c23BlockSize),
		Unallocated:                 []int{},
		Attributes:                  []model.AllocationAttribute{},
		SequenceNumber:              b.Seq,
		SequenceNumberForAllocation: map[string]uint64{},
	}
	if b.Aff != "" {
		aff := "host:" + b.Aff
		mb.Affinity = &aff
	}
	for ord, a := range b.Allocs {
		if a == nil {
			mb.Unallocated = append(mb.Unallocated, ord)
			continue
		}
		idx := len(mb.Attributes)
		attr := model.AllocationAttribute{}
		if a.HasHandle {
			h := a.Handle
			attr.HandleID = &h
		}
		if a.Attrs != nil {
			attr.ActiveOwnerAttrs = map[string]string{}
			for k, v := range a.Attrs {
				attr.ActiveOwnerAttrs[k] = v
			}
		}
		mb.Attributes = append(mb.Attributes, attr)
		mb.Allocations[ord] = &idx
		mb.SequenceNumberForAllocation[fmt.Sprint(ord)] = a.Seq
	}
	return mb
}

func (w *c23World) touch(b *c23Block) {
	b.Seq++
	w.events = append(w.events, c23Event{cidr: b.CIDR, block: w.toModel(b)})
}

func (w *c23World) deleteBlock(cidr string) {
	delete(w.blocks, cidr)
	w.events = append(w.events, c23Event{cidr: cidr})
}

func (w *c23World) findIP(ip string) (*c23Block, int) {
	for _, cidr := range c23Keys(w.blocks) {
		b := w.blocks[cidr]
		for ord, a := range b.Allocs {
			if a != nil && a.IP == ip {
				return b, ord
			}
		}
	}
	return nil, -1
}

// ---- owner rules -------------------------------------------------------------------------

func c23IsPod(attrs map[string]string) bool {
	return attrs[ipam.AttributeNamespace] != "" && attrs[ipam.AttributePod] != ""
}

func c23IsVM(attrs map[string]string) bool {
	_, ok := attrs[ipam.AttributeVMIName]
	return ok
}

func c23IsTunnel(attrs map[string]string) bool {
	switch attrs[ipam.AttributeType] {
	case ipam.AttributeTypeIPIP, ipam.AttributeTypeVXLAN, ipam.AttributeTypeVXLANV6, ipam.AttributeTypeWireguard, ipam.AttributeTypeWireguardV6:
		return true
	}
	return false
}

func (w *c23World) vmValid(attrs map[string]string) bool {
	ns, name := attrs[ipam.AttributeNamespace], attrs[ipam.AttributeVMIName]
	if ns == "" || name == "" {
		return true
	}
	if w.vms[name] {
		return true
	}
	if hasOwner, ok := w.vmis[name]; ok && !hasOwner {
		return true
	}
	return false
}

// codeValid is the documented validity rule (design/ipam/ipam-gc.md, allocationIsValid) for a pod
// allocation evaluated on the given pod view; it drives the harness's model of "first observed
// as leaked".
func c23CodeValid(view map[string]*c23Pod, ip string, attrs map[string]string, knode string) bool {
	p, ok := view[attrs[ipam.AttributePod]]
	if !ok || attrs[ipam.AttributeNamespace] != c23NS {
		return false
	}
	if p.Node != "" && knode != "" && p.Node != knode {
		return false
	}
	if len(p.IPs) == 0 {
		return true
	}
	if p.Finished {
		return false
	}
	for _, x := range p.IPs {
		if x == ip {
			return true
		}
	}
	return false
}

// truthJustified: the pod exists right now, on the allocation's node, is not finished and either
// holds the address or has not been given one yet.  Deliberately no wider than codeValid.
func (w *c23World) truthJustified(ip string, attrs map[string]string) bool {
	p, ok := w.podsLive[attrs[ipam.AttributePod]]
	if !ok || attrs[ipam.AttributeNamespace] != c23NS {
		return false
	}
	kn, isK8s := w.calicoNodes[attrs[ipam.AttributeNode]]
	if isK8s && kn != "" && p.Node != kn {
		return false
	}
	if !isK8s {
		// Calico node object is gone; compare with the name it had (KDD: same name, etcd: c-<name>).
		want := strings.TrimPrefix(attrs[ipam.AttributeNode], "c-")
		if p.Node != want {
			return false
		}
	}
	if p.Finished {
		return false
	}
	if len(p.IPs) == 0 {
		return true
	}
	for _, x := range p.IPs {
		if x == ip {
			return true
		}
	}
	return false
}

// ---- environment ------------------------------------------------------------------------------

func c23PodObj(name string, p *c23Pod) *v1.Pod {
	pod := &v1.Pod{ObjectMeta: metav1.ObjectMeta{Name: name, Namespace: c23NS}}
	pod.Spec.NodeName = p.Node
	pod.Status.Phase = v1.PodRunning
	if len(p.IPs) > 0 {
		pod.Status.PodIP = p.IPs[0]
		for _, ip := range p.IPs {
			pod.Status.PodIPs = append(pod.Status.PodIPs, v1.PodIP{IP: ip})
		}
	}
	if p.Finished {
		pod.Status.Phase = v1.PodSucceeded
		if p.Evicted {
			pod.Status.Phase = v1.PodFailed
			pod.Status.Reason = "Evicted"
		}
	}
	return pod
}

func c23NewEnv(kdd bool, leakGrace *time.Duration) *c23Env {
	w := &c23World{
		kdd: kdd, k8sNodes: map[string]bool{}, calicoNodes: map[string]string{},
		podsLive: map[string]*c23Pod{}, podsCache: map[string]*c23Pod{},
		vms: map[string]bool{}, vmis: map[string]bool{}, blocks: map[string]*c23Block{},
		leakGrace: leakGrace, vmGrace: 5*time.Minute + 30*time.Second,
	}
	e := &c23Env{w: w, seen: map[string]*c23SeenBlock{}, classes: map[string]bool{}}
	cs := k8sfake.NewClientset()
	cs.PrependReactor("*", "pods", func(a k8stesting.Action) (bool, runtime.Object, error) {
		ga, ok := a.(k8stesting.GetAction)
		if !ok || a.GetVerb() != "get" {
			return true, nil, fmt.Errorf("HARNESS-GAP: unexpected pods action %s", a.GetVerb())
		}
		p, ok := w.podsLive[ga.GetName()]
		if !ok || ga.GetNamespace() != c23NS {
			return true, nil, apierrors.NewNotFound(schema.GroupResource{Resource: "pods"}, ga.GetName())
		}
		return true, c23PodObj(ga.GetName(), p), nil
	})
	e.podIdx = cache.NewIndexer(cache.MetaNamespaceKeyFunc, cache.Indexers{cache.NamespaceIndex: cache.MetaNamespaceIndexFunc})
	e.nodeIdx = cache.NewIndexer(cache.MetaNamespaceKeyFunc, cache.Indexers{})
	e.vmIdx = cache.NewIndexer(cache.MetaNamespaceKeyFunc, cache.Indexers{})
	e.vmiIdx = cache.NewIndexer(cache.MetaNamespaceKeyFunc, cache.Indexers{})
	e.nodeClient = &fakeNodeClient{nodes: map[string]*internalapi.Node{}}
	cli := &FakeCalicoClient{nodeClient: e.nodeClient, ipamClient: &c23IPAM{e: e}}
	cfg := config.NodeControllerConfig{}
	if leakGrace != nil {
		cfg.LeakGracePeriod = &metav1.Duration{Duration: *leakGrace}
	}
	e.c = NewIPAMController(cfg, cli, cs, e.podIdx, e.nodeIdx, kubevirt.NewDeferredInformersWithIndexers(e.vmIdx, e.vmiIdx))
	e.c.vmRecreationGracePeriod = w.vmGrace
	return e
}

func (e *c23Env) violate(format string, args ...any) {
	e.violations = append(e.violations, fmt.Sprintf(format, args...))
}

func (e *c23Env) log(format string, args ...any) {
	e.hist = append(e.hist, fmt.Sprintf(format, args...))
}

// advance moves time forward by d by moving every instant the controller recorded back by d.
func (e *c23Env) advance(d time.Duration) {
	e.w.now += d
	for _, allocs := range e.c.allocationsByBlock {
		for _, a := range allocs {
			if a.leakedAt != nil {
				t := a.leakedAt.Add(-d)
				a.leakedAt = &t
			}
		}
	}
	for k, v := range e.c.blockReleaseTracker.blocks {
		e.c.blockReleaseTracker.blocks[k] = v.Add(-d)
	}
}

// ---- world mutations that the controller hears about immediately (nodes, pods) -----------------

func (e *c23Env) nodeAdd(n string) {
	w := e.w
	w.k8sNodes[n] = true
	_ = e.nodeIdx.Add(&v1.Node{ObjectMeta: metav1.ObjectMeta{Name: n}})
	cn := w.calicoName(n)
	if _, ok := w.calicoNodes[cn]; !ok {
		w.calicoNodes[cn] = n
		cnode := &internalapi.Node{ObjectMeta: metav1.ObjectMeta{Name: cn}}
		cnode.Spec.OrchRefs = []internalapi.OrchRef{{NodeName: n, Orchestrator: apiv3.OrchestratorKubernetes}}
		e.nodeClient.Lock()
		e.nodeClient.nodes[cn] = cnode
		e.nodeClient.Unlock()
		e.c.handleUpdate(model.KVPair{Key: model.ResourceKey{Kind: internalapi.KindNode, Name: cn}, Value: cnode})
	}
}

// foreignNodeAdd creates a Calico node without a Kubernetes orchRef (bare-metal / OpenStack host
// sharing an etcd datastore).  viaSyncer: the syncer delivers it (the controller caches it as "");
// otherwise the controller only finds it through the datastore client.
func (e *c23Env) foreignNodeAdd(cn string, viaSyncer bool) {
	e.w.calicoNodes[cn] = ""
	cnode := &internalapi.Node{ObjectMeta: metav1.ObjectMeta{Name: cn}}
	if e.w.podGen%2 == 0 {
		cnode.Spec.OrchRefs = []internalapi.OrchRef{{NodeName: cn, Orchestrator: "openstack"}}
	}
	e.nodeClient.Lock()
	e.nodeClient.nodes[cn] = cnode
	e.nodeClient.Unlock()
	if viaSyncer {
		e.c.handleUpdate(model.KVPair{Key: model.ResourceKey{Kind: internalapi.KindNode, Name: cn}, Value: cnode})
	}
}

func (e *c23Env) calicoNodeDel(cn string) {
	delete(e.w.calicoNodes, cn)
	e.nodeClient.Lock()
	delete(e.nodeClient.nodes, cn)
	e.nodeClient.Unlock()
	e.c.handleUpdate(model.KVPair{Key: model.ResourceKey{Kind: internalapi.KindNode, Name: cn}})
}

func (e *c23Env) nodeDel(n string) {
	w := e.w
	// The pod informer is caught up before a node disappears (generator restriction, see limits).
	e.cacheSync()
	delete(w.k8sNodes, n)
	_ = e.nodeIdx.Delete(&v1.Node{ObjectMeta: metav1.ObjectMeta{Name: n}})
	if w.kdd {
		e.calicoNodeDel(w.calicoName(n))
	}
	// OnKubernetesNodeDeleted -> nodeDeletionChan -> fullScanNextSync.
	e.c.fullScanNextSync("Batch node deletion")
}

// cacheSetPod brings the informer's view of one pod up to date, firing the deletion callback
// (OnKubernetesPodDeleted -> podDeletionChan -> markDirtyPodDeleted) when the cached incarnation is gone.
func (e *c23Env) cacheSetPod(name string) {
	w := e.w
	lp, lok := w.podsLive[name]
	if cp, cok := w.podsCache[name]; cok && (!lok || lp.Gen != cp.Gen) {
		obj := c23PodObj(name, cp)
		delete(w.podsCache, name)
		_ = e.podIdx.Delete(obj)
		e.c.allocationState.markDirtyPodDeleted(obj)
	}
	if lok {
		cp := *lp
		cp.IPs = append([]string{}, lp.IPs...)
		w.podsCache[name] = &cp
		_ = e.podIdx.Add(c23PodObj(name, &cp))
	}
}

func (e *c23Env) cacheSync() {
	names := map[string]bool{}
	for n := range e.w.podsLive {
		names[n] = true
	}
	for n := range e.w.podsCache {
		names[n] = true
	}
	for _, n := range c23Keys(names) {
		e.cacheSetPod(n)
	}
}

// ---- syncer delivery and the model of "blocks seen" ------------------------------------------

func (e *c23Env) deliver(n int) {
	for ; n > 0 && len(e.w.events) > 0; n-- {
		evn := e.w.events[0]
		e.w.events = e.w.events[1:]
		key := model.BlockKey{CIDR: model.PrefixFromIPNet(cnet.MustParseCIDR(evn.cidr))}
		if evn.block == nil {
			e.c.handleUpdate(model.KVPair{Key: key})
			delete(e.seen, evn.cidr)
			continue
		}
		e.c.handleUpdate(model.KVPair{Key: key, Value: evn.block})
		sb := e.seen[evn.cidr]
		if sb == nil {
			sb = &c23SeenBlock{allocs: map[string]*c23SeenAlloc{}}
			e.seen[evn.cidr] = sb
		}
		b := evn.block
		sb.aff = ""
		if b.Affinity != nil {
			sb.aff = strings.TrimPrefix(*b.Affinity, "host:")
		}
		sb.raw = 0
		cur := map[string]bool{}
		for ord, idx := range b.Allocations {
			if idx == nil {
				continue
			}
			sb.raw++
			attr := b.Attributes[*idx]
			if attr.HandleID == nil {
				continue
			}
			ip := c23IP(c23BlockK(evn.cidr), ord)
			id := fmt.Sprintf("%s/%s", *attr.HandleID, ip)
			cur[id] = true
			seq := b.GetSequenceNumberForOrdinal(ord)
			if sa, ok := sb.allocs[id]; ok {
				if sa.Seq != seq {
					sa.Seq = seq
					sa.leakedAt, sa.noNode = nil, false
				}
				// "Consistent with the blocks it has seen": the attributes are those of the
				// latest block.
				sa.Attrs = attr.ActiveOwnerAttrs
				continue
			}
			sb.allocs[id] = &c23SeenAlloc{ID: id, IP: ip, Handle: *attr.HandleID, Block: evn.cidr, Attrs: attr.ActiveOwnerAttrs, Seq: seq}
		}
		for id := range sb.allocs {
			if !cur[id] {
				delete(sb.allocs, id)
			}
		}
		if sb.aff != "" && sb.raw > 0 {
			sb.emptySince = nil // markInUse
		}
	}
}

func c23BlockK(cidr string) int {
	var k int
	_, _ = fmt.Sscanf(cidr, "10.0.%d.0/30", &k)
	return k
}

// ---- recording IPAM client ---------------------------------------------------------------------

type c23IPAM struct {
	ipam.Interface
	e *c23Env
}

func (f *c23IPAM) graceFor(attrs map[string]string) time.Duration {
	w := f.e.w
	g := time.Duration(0)
	if w.leakGrace != nil {
		g = *w.leakGrace
	}
	if c23IsVM(attrs) && w.vmGrace > g {
		g = w.vmGrace
	}
	return g
}

func (f *c23IPAM) checkRelease(opt ipam.ReleaseOptions, how string) {
	e, w := f.e, f.e.w
	b, ord := w.findIP(opt.Address)
	if b == nil {
		return // already free in the datastore: releasing is a no-op
	}
	a := b.Allocs[ord]
	if !a.HasHandle || a.Handle != opt.Handle || (opt.SequenceNumber != nil && *opt.SequenceNumber != a.Seq) {
		return // the datastore would refuse (handle / sequence number mismatch)
	}
	desc := fmt.Sprintf("%s of %s handle=%s attrs=%v at t=%s", how, opt.Address, opt.Handle, a.Attrs, w.now)
	id := fmt.Sprintf("%s/%s", a.Handle, a.IP)
	var sa *c23SeenAlloc
	if sb := e.seen[b.CIDR]; sb != nil {
		sa = sb.allocs[id]
	}
	if sa == nil {
		e.violate("R5: %s: the allocation is not in any block the controller has seen", desc)
		return
	}
	attrs := a.Attrs
	if strings.EqualFold(a.Handle, ipam.WindowsReservedHandle) {
		e.violate("R1: %s: Windows reserved addresses are never garbage collected", desc)
		return
	}
	cnode := attrs[ipam.AttributeNode]
	kn, isK8s := w.knodeFor(cnode)
	if !isK8s {
		// A live Calico node that is not orchestrated by Kubernetes: its tunnel address is justified
		// by the node itself, and its other allocations have owners this cluster knows nothing
		// about (kubernetesNodeForCalico: ErrorNotKubernetes => the node is skipped).
		e.violate("R1: %s: the allocation belongs to %s, a live Calico node that is not a Kubernetes node; the GC must leave it alone", desc, cnode)
		return
	}
	nodeExists := kn != "" && w.k8sNodes[kn]
	if c23IsTunnel(attrs) {
		e.classes["release-tunnel"] = true
		if nodeExists {
			e.violate("R1: %s: tunnel address released but its node %s still exists", desc, kn)
		}
		// "...and there are no other valid allocations on the node": the GC decides this when it
		// scans the deleted node; the model records the scans at which it held (see sync()).
		if !sa.noNode {
			e.violate("R1: %s: tunnel address released but no scan ever saw its node deleted with no valid / unknown-source allocations left on it", desc)
		}
		return
	}
	if !c23IsPod(attrs) {
		e.violate("R1: %s: allocation without pod/namespace metadata must be assumed valid", desc)
		return
	}
	if c23IsVM(attrs) {
		e.classes["release-vm"] = true
		if w.vmValid(attrs) {
			e.violate("R1: %s: the VM / standalone VMI still exists (or cannot be checked)", desc)
		}
	} else {
		e.classes["release-pod"] = true
		if w.truthJustified(a.IP, attrs) {
			e.violate("R1: %s: pod %v exists on the allocation's node and holds (or awaits) the address", desc, w.podsLive[attrs[ipam.AttributePod]])
		}
	}
	// R2.
	if sa.noNode {
		e.classes["release-node-gone"] = true
		return
	}
	g := f.graceFor(attrs)
	if g <= 0 {
		e.violate("R2: %s: released although no grace period is configured (GC disabled) and the node exists", desc)
		return
	}
	if sa.leakedAt == nil {
		e.violate("R2: %s: released without ever having been observed as leaked by a scan (grace %s)", desc, g)
		return
	}
	if w.now-*sa.leakedAt <= g {
		e.violate("R2: %s: first observed leaked at t=%s, grace %s has not elapsed", desc, *sa.leakedAt, g)
		return
	}
	e.classes["release-after-grace"] = true
}

func (f *c23IPAM) ReleaseIPs(ctx context.Context, opts ...ipam.ReleaseOptions) ([]cnet.IP, []ipam.ReleaseOptions, error) {
	e, w := f.e, f.e.w
	e.releases++
	sorted := append([]ipam.ReleaseOptions{}, opts...)
	sort.Slice(sorted, func(i, j int) bool { return sorted[i].Address < sorted[j].Address })
	var addrs []string
	byHandle := map[string]map[string]bool{}
	for _, o := range sorted {
		addrs = append(addrs, o.Address+"@"+o.Handle)
		if o.SequenceNumber == nil {
			e.violate("ReleaseIPs option for %s carries no sequence number", o.Address)
		}
		f.checkRelease(o, "ReleaseIPs")
		if byHandle[o.Handle] == nil {
			byHandle[o.Handle] = map[string]bool{}
		}
		byHandle[o.Handle][o.Handle+"/"+o.Address] = true
	}
	e.log("  -> ReleaseIPs(%s)", strings.Join(addrs, ","))
	// R3: all or none per handle, relative to the blocks seen.
	for _, h := range c23Keys(byHandle) {
		all := map[string]bool{}
		for _, cidr := range c23Keys(e.seen) {
			for id, sa := range e.seen[cidr].allocs {
				if sa.Handle == h {
					all[id] = true
				}
			}
		}
		if len(all) > 1 {
			e.classes["release-multi-ip-handle"] = true
		}
		for _, id := range c23Keys(all) {
			if !byHandle[h][id] {
				e.violate("R3: ReleaseIPs releases %v of handle %s but not %s which the controller has seen with the same handle", c23Keys(byHandle[h]), h, id)
			}
		}
	}
	// Apply to the datastore.
	var released []ipam.ReleaseOptions
	var err error
	for i, o := range sorted {
		if e.failMode == 2 || (e.failMode == 1 && i > 0) {
			err = fmt.Errorf("injected: update conflict")
			continue
		}
		if b, ord := w.findIP(o.Address); b != nil {
			a := b.Allocs[ord]
			if !a.HasHandle || a.Handle != o.Handle || (o.SequenceNumber != nil && *o.SequenceNumber != a.Seq) {
				continue
			}
			b.Allocs[ord] = nil
			w.touch(b)
		}
		released = append(released, o)
		// The controller drops a released allocation from its own maps right away.
		for _, cidr := range c23Keys(e.seen) {
			delete(e.seen[cidr].allocs, o.Handle+"/"+o.Address)
		}
	}
	return nil, released, err
}

func (f *c23IPAM) ReleaseByHandle(ctx context.Context, handleID string) error {
	e, w := f.e, f.e.w
	for _, cidr := range c23Keys(w.blocks) {
		b := w.blocks[cidr]
		for ord, a := range b.Allocs {
			if a != nil && a.HasHandle && a.Handle == handleID {
				seq := a.Seq
				f.checkRelease(ipam.ReleaseOptions{Address: a.IP, Handle: handleID, SequenceNumber: &seq}, "ReleaseByHandle")
				b.Allocs[ord] = nil
				w.touch(b)
			}
		}
	}
	e.log("  -> ReleaseByHandle(%s)", handleID)
	return nil
}

func (f *c23IPAM) ReleaseBlockAffinity(ctx context.Context, block *model.AllocationBlock, mustBeEmpty bool) error {
	e, w := f.e, f.e.w
	cidr := block.CIDR.String()
	host := ""
	if block.Affinity != nil {
		host = strings.TrimPrefix(*block.Affinity, "host:")
	}
	e.log("  -> ReleaseBlockAffinity(%s,%s)", cidr, host)
	e.classes["release-block-affinity"] = true
	desc := fmt.Sprintf("ReleaseBlockAffinity(%s, host %s) at t=%s", cidr, host, w.now)
	if !mustBeEmpty {
		e.violate("R4: %s: mustBeEmpty=false", desc)
	}
	sb := e.seen[cidr]
	if sb == nil {
		e.violate("R4: %s: block not among the blocks seen", desc)
		return nil
	}
	if sb.raw != 0 {
		e.violate("R4: %s: the block last seen has %d allocations", desc, sb.raw)
	}
	if sb.aff == "" || sb.aff != host {
		e.violate("R4: %s: the block last seen has affinity %q", desc, sb.aff)
	}
	n := 0
	for _, o := range e.seen {
		if o.aff == host {
			n++
		}
	}
	if n <= 1 {
		e.violate("R4: %s: this is the only block affine to the node", desc)
	}
	g := time.Duration(0)
	if w.leakGrace != nil {
		g = *w.leakGrace
	}
	if g <= 0 {
		e.violate("R4: %s: no grace period configured, block GC is disabled", desc)
	} else if sb.emptySince == nil || w.now-*sb.emptySince <= g {
		e.violate("R4: %s: block not observed empty at a sync more than %s ago (first empty observation: %v)", desc, g, sb.emptySince)
	}
	wb := w.blocks[cidr]
	if wb == nil {
		delete(e.seen, cidr)
		return nil
	}
	if wb.count() > 0 || wb.Aff != host {
		return fmt.Errorf("block is not empty / affinity changed")
	}
	w.deleteBlock(cidr)
	delete(e.seen, cidr) // forgetBlock
	return nil
}

func (f *c23IPAM) ReleaseHostAffinities(ctx context.Context, cfg ipam.AffinityConfig, mustBeEmpty bool) error {
	e, w := f.e, f.e.w
	e.log("  -> ReleaseHostAffinities(%s)", cfg.Host)
	e.classes["release-host-affinities"] = true
	if !mustBeEmpty {
		e.violate("R4: ReleaseHostAffinities(%s) with mustBeEmpty=false", cfg.Host)
	}
	if kn, isK8s := w.knodeFor(cfg.Host); kn != "" && w.k8sNodes[kn] {
		e.violate("R4: ReleaseHostAffinities(%s) but Kubernetes node %s still exists", cfg.Host, kn)
	} else if !isK8s {
		e.violate("R4: ReleaseHostAffinities(%s) releases every block (including the last) of a live Calico node that is not a Kubernetes node", cfg.Host)
	}
	var err error
	for _, cidr := range c23Keys(w.blocks) {
		b := w.blocks[cidr]
		if b.Aff != cfg.Host {
			continue
		}
		if b.count() == 0 {
			w.deleteBlock(cidr)
		} else {
			err = fmt.Errorf("block %s is not empty", cidr)
		}
	}
	return err
}

func (f *c23IPAM) GetIPAMConfig(ctx context.Context) (*ipam.IPAMConfig, error) {
	return &ipam.IPAMConfig{}, nil
}

func (f *c23IPAM) GarbageCollectColdIPs(ctx context.Context, config *ipam.IPAMConfig, kvp *model.KVPair) error {
	return nil
}

// ---- sync with model update ---------------------------------------------------------------------

func (e *c23Env) sync(full bool) {
	w, c := e.w, e.c
	if full {
		c.fullScanNextSync("periodic sync")
	}
	active := c.datastoreReady && c.syncStatus == bapi.InSync
	if active {
		scanned := map[string]bool{}
		if c.fullSyncRequired {
			for _, n := range c.nodesByBlock {
				scanned[n] = true
			}
			for n := range c.allocationState.allocationsByNode {
				scanned[n] = true
			}
		} else {
			for n := range c.allocationState.dirtyNodes {
				scanned[n] = true
			}
		}
		for _, cnode := range c23Keys(scanned) {
			knode, isK8s := w.knodeFor(cnode)
			if !isK8s {
				continue
			}
			nodeExists := knode != "" && w.k8sNodes[knode]
			byHandleValid := map[string][2]int{}
			canDelete := true
			var tunnels []*c23SeenAlloc
			for _, cidr := range c23Keys(e.seen) {
				for _, id := range c23Keys(e.seen[cidr].allocs) {
					sa := e.seen[cidr].allocs[id]
					if sa.Attrs[ipam.AttributeNode] != cnode || strings.EqualFold(sa.Handle, ipam.WindowsReservedHandle) {
						continue
					}
					if !c23IsPod(sa.Attrs) && !c23IsTunnel(sa.Attrs) {
						canDelete = false // unknown source
						continue
					}
					if c23IsTunnel(sa.Attrs) {
						tunnels = append(tunnels, sa)
						continue
					}
					var valid bool
					if c23IsVM(sa.Attrs) {
						valid = w.vmValid(sa.Attrs)
					} else {
						valid = c23CodeValid(w.podsCache, sa.IP, sa.Attrs, knode)
						if !valid && w.truthJustified(sa.IP, sa.Attrs) {
							e.classes["cache-says-leaked-but-live-in-use"] = true
							if sa.leakedAt != nil && w.leakGrace != nil && w.now-*sa.leakedAt > *w.leakGrace {
								e.classes["final-recheck-decides"] = true
							}
						}
					}
					v := byHandleValid[sa.Handle]
					if valid {
						v[0]++
					} else {
						v[1]++
					}
					byHandleValid[sa.Handle] = v
					if valid {
						canDelete = false
					}
					switch {
					case valid:
						if sa.leakedAt != nil || sa.noNode {
							e.classes["leak-candidate-revalidated"] = true
						}
						sa.leakedAt, sa.noNode = nil, false
					case !nodeExists:
						sa.noNode = true
					case c23IsVM(sa.Attrs) || w.leakGrace != nil:
						if sa.leakedAt == nil {
							t := w.now
							sa.leakedAt = &t
							e.classes["leak-candidate-marked"] = true
						}
					}
				}
			}
			for _, v := range byHandleValid {
				if v[0] > 0 && v[1] > 0 {
					e.classes["handle-mixed-validity"] = true
				}
			}
			if !nodeExists && canDelete {
				for _, sa := range tunnels {
					sa.noNode = true
				}
			}
		}
		for _, cidr := range c23Keys(e.seen) {
			sb := e.seen[cidr]
			if sb.aff != "" && sb.raw == 0 && sb.emptySince == nil {
				t := w.now
				sb.emptySince = &t
			}
		}
	}
	e.log("sync(full=%v,fail=%d)@%s", full, e.failMode, w.now)
	_ = c.syncIPAM()
}

// orderHazard reports whether the next sync can hit the known order dependence: a handle with two
// or more addresses of which one will still be flagged as a confirmed leak when the GC loop starts
// although the final re-validation finds it in use, while another one is genuinely leaked.
func (e *c23Env) orderHazard(full bool) bool {
	w, c := e.w, e.c
	type mate struct{ finalValid, flagged bool }
	byHandle := map[string][]mate{}
	for _, cidr := range c23Keys(e.seen) {
		for _, id := range c23Keys(e.seen[cidr].allocs) {
			sa := e.seen[cidr].allocs[id]
			if !c23IsPod(sa.Attrs) || c23IsTunnel(sa.Attrs) || c23IsVM(sa.Attrs) {
				continue
			}
			cnode := sa.Attrs[ipam.AttributeNode]
			knode, isK8s := w.knodeFor(cnode)
			view := w.podsLive
			if knode == "" {
				view = w.podsCache
			}
			m := mate{finalValid: c23CodeValid(view, sa.IP, sa.Attrs, knode)}
			cacheValid := c23CodeValid(w.podsCache, sa.IP, sa.Attrs, knode)
			flag := false
			if a := c.allocationsByBlock[cidr][id]; a != nil {
				flag = a.confirmedLeak
			}
			_, dirty := c.allocationState.dirtyNodes[cnode]
			scanned := isK8s && (full || c.fullSyncRequired || dirty)
			m.flagged = !cacheValid || (flag && !scanned)
			byHandle[sa.Handle] = append(byHandle[sa.Handle], m)
		}
	}
	for _, mates := range byHandle {
		hazardMate, leaked := false, false
		for _, m := range mates {
			if m.finalValid && m.flagged {
				hazardMate = true
			}
			if !m.finalValid {
				leaked = true
			}
		}
		if len(mates) > 1 && hazardMate && leaked {
			return true
		}
	}
	return false
}

// staleKnodeHazard reports whether the next sync can hit the known stale-knode defect: a pod
// allocation still queued as a confirmed leak from the time its node was gone (knode ""), the node
// name exists again, the node will not be re-scanned, and the lagging informer cache says "leaked"
// while the API server says "in use".
func (e *c23Env) staleKnodeHazard(full bool) bool {
	w, c := e.w, e.c
	for _, cidr := range c23Keys(e.seen) {
		for _, id := range c23Keys(e.seen[cidr].allocs) {
			sa := e.seen[cidr].allocs[id]
			if !(c23IsTunnel(sa.Attrs) || (c23IsPod(sa.Attrs) && !c23IsVM(sa.Attrs))) {
				continue
			}
			a := c.allocationsByBlock[cidr][id]
			if a == nil || !a.confirmedLeak || a.knode != "" {
				continue
			}
			cnode := sa.Attrs[ipam.AttributeNode]
			knode, isK8s := w.knodeFor(cnode)
			if !isK8s || knode == "" {
				continue
			}
			_, dirty := c.allocationState.dirtyNodes[cnode]
			if full || c.fullSyncRequired || dirty {
				continue
			}
			if c23IsTunnel(sa.Attrs) {
				if w.k8sNodes[knode] {
					return true
				}
				continue
			}
			if !c23CodeValid(w.podsCache, sa.IP, sa.Attrs, "") && w.truthJustified(sa.IP, sa.Attrs) {
				return true
			}
		}
	}
	return false
}

// ---- bookkeeping comparison (R5) ---------------------------------------------------------------

func (e *c23Env) checkBookkeeping() string {
	c := e.c
	var diffs []string
	add := func(f string, a ...any) { diffs = append(diffs, fmt.Sprintf(f, a...)) }
	wantBlocks := c23Keys(e.seen)
	if got := c23Keys(c.allBlocks); fmt.Sprint(got) != fmt.Sprint(wantBlocks) {
		add("allBlocks=%v want %v", got, wantBlocks)
	}
	type flat struct{ ip, handle, block, attrs string; seq uint64 }
	render := func(m map[string]string) string {
		var parts []string
		for _, k := range c23Keys(m) {
			parts = append(parts, k+"="+m[k])
		}
		return strings.Join(parts, ",")
	}
	want := map[string]flat{}
	wantByNode := map[string][]string{}
	wantByHandle := map[string][]string{}
	wantNodesByBlock := map[string]string{}
	wantEmpty := map[string]string{}
	for _, cidr := range wantBlocks {
		sb := e.seen[cidr]
		if sb.aff != "" {
			wantNodesByBlock[cidr] = sb.aff
			if sb.raw == 0 {
				wantEmpty[cidr] = sb.aff
			}
		}
		for _, id := range c23Keys(sb.allocs) {
			sa := sb.allocs[id]
			want[cidr+"|"+id] = flat{sa.IP, sa.Handle, sa.Block, render(sa.Attrs), sa.Seq}
			if n := sa.Attrs[ipam.AttributeNode]; n != "" {
				wantByNode[n] = append(wantByNode[n], id)
			}
			wantByHandle[sa.Handle] = append(wantByHandle[sa.Handle], id)
		}
	}
	got := map[string]flat{}
	ptr := map[string]*allocation{}
	for cidr, allocs := range c.allocationsByBlock {
		for id, a := range allocs {
			got[cidr+"|"+id] = flat{a.ip, a.handle, a.block, render(a.attrs), a.sequenceNumber}
			ptr[id] = a
			if a.id() != id {
				add("allocationsByBlock[%s][%s] holds allocation with id %s", cidr, id, a.id())
			}
		}
	}
	for _, k := range c23Keys(want) {
		if g, ok := got[k]; !ok {
			add("allocationsByBlock lacks %s", k)
		} else if g != want[k] {
			add("allocationsByBlock[%s]=%+v, blocks seen say %+v", k, g, want[k])
		}
	}
	for _, k := range c23Keys(got) {
		if _, ok := want[k]; !ok {
			add("allocationsByBlock has stale %s", k)
		}
	}
	gotByNode := map[string][]string{}
	for n, allocs := range c.allocationState.allocationsByNode {
		for id, a := range allocs {
			gotByNode[n] = append(gotByNode[n], id)
			if ptr[id] != a {
				add("allocationState[%s][%s] is not the allocation tracked per block", n, id)
			}
		}
	}
	gotByHandle := map[string][]string{}
	for h, allocs := range c.handleTracker.allocationsByHandle {
		for id, a := range allocs {
			gotByHandle[h] = append(gotByHandle[h], id)
			if ptr[id] != a {
				add("handleTracker[%s][%s] is not the allocation tracked per block", h, id)
			}
		}
	}
	cmp := func(name string, g, w map[string][]string) {
		for _, k := range c23Keys(g) {
			sort.Strings(g[k])
		}
		for _, k := range c23Keys(w) {
			sort.Strings(w[k])
		}
		if fmt.Sprint(g) != fmt.Sprint(w) {
			add("%s=%v want %v", name, g, w)
		}
	}
	cmp("allocationState.allocationsByNode", gotByNode, wantByNode)
	cmp("handleTracker.allocationsByHandle", gotByHandle, wantByHandle)
	for id, a := range c.confirmedLeaks {
		if ptr[id] != a {
			add("confirmedLeaks[%s] is not a tracked allocation", id)
		}
	}
	if fmt.Sprint(c.nodesByBlock) != fmt.Sprint(wantNodesByBlock) {
		add("nodesByBlock=%v want %v", c.nodesByBlock, wantNodesByBlock)
	}
	gotBBN := map[string][]string{}
	for n, bs := range c.blocksByNode {
		for b, ok := range bs {
			if ok {
				gotBBN[n] = append(gotBBN[n], b)
			}
		}
		if len(bs) == 0 {
			gotBBN[n] = nil
		}
	}
	wantBBN := map[string][]string{}
	for b, n := range wantNodesByBlock {
		wantBBN[n] = append(wantBBN[n], b)
	}
	cmp("blocksByNode", gotBBN, wantBBN)
	if fmt.Sprint(c.emptyBlocks) != fmt.Sprint(wantEmpty) {
		add("emptyBlocks=%v want %v", c.emptyBlocks, wantEmpty)
	}
	for cidr := range c.blockReleaseTracker.blocks {
		if _, ok := e.seen[cidr]; !ok {
			add("blockReleaseTracker still tracks forgotten block %s", cidr)
		}
	}
	return strings.Join(diffs, "; ")
}

func (e *c23Env) describe() string {
	w := e.w
	var sb strings.Builder
	g := "unset"
	if w.leakGrace != nil {
		g = w.leakGrace.String()
	}
	fmt.Fprintf(&sb, "  kdd=%v leakGrace=%s vmGrace=%s now=%s\n  k8sNodes=%v calicoNodes=%v\n", w.kdd, g, w.vmGrace, w.now, c23Keys(w.k8sNodes), w.calicoNodes)
	for _, n := range c23Keys(w.podsLive) {
		fmt.Fprintf(&sb, "  live pod %s %+v\n", n, *w.podsLive[n])
	}
	for _, n := range c23Keys(w.podsCache) {
		fmt.Fprintf(&sb, "  cached pod %s %+v\n", n, *w.podsCache[n])
	}
	fmt.Fprintf(&sb, "  vms=%v vmis=%v\n", c23Keys(w.vms), w.vmis)
	for _, cidr := range c23Keys(w.blocks) {
		b := w.blocks[cidr]
		fmt.Fprintf(&sb, "  datastore block %s aff=%q:", cidr, b.Aff)
		for _, a := range b.Allocs {
			if a != nil {
				fmt.Fprintf(&sb, " [%s h=%s seq=%d %v]", a.IP, a.Handle, a.Seq, a.Attrs)
			}
		}
		sb.WriteString("\n")
	}
	for _, cidr := range c23Keys(e.seen) {
		s := e.seen[cidr]
		fmt.Fprintf(&sb, "  seen block %s aff=%q raw=%d:", cidr, s.aff, s.raw)
		for _, id := range c23Keys(s.allocs) {
			a := s.allocs[id]
			la := "-"
			if a.leakedAt != nil {
				la = a.leakedAt.String()
			}
			fmt.Fprintf(&sb, " [%s seq=%d leakedAt=%s noNode=%v]", id, a.Seq, la, a.noNode)
		}
		sb.WriteString("\n")
	}
	fmt.Fprintf(&sb, "  undelivered block events: %d\n", len(w.events))
	return sb.String()
}

// ---- generator -------------------------------------------------------------------------------

func (e *c23Env) freeSlot(t *rapid.T, prefer string) (*c23Block, int) {
	w := e.w
	var cands []*c23Block
	for _, cidr := range c23Keys(w.blocks) {
		b := w.blocks[cidr]
		if b.count() < c23BlockSize && b.Aff == prefer {
			cands = append(cands, b)
		}
	}
	borrow := rapid.IntRange(0, 5).Draw(t, "borrow") == 0
	if len(cands) == 0 || borrow {
		for _, cidr := range c23Keys(w.blocks) {
			b := w.blocks[cidr]
			if b.count() < c23BlockSize && b.Aff != prefer {
				cands = append(cands, b)
			}
		}
	}
	if len(cands) == 0 || (len(w.blocks) < c23NumBlocks && rapid.IntRange(0, 3).Draw(t, "newBlock") == 0) {
		for k := 0; k < c23NumBlocks; k++ {
			if _, ok := w.blocks[c23CIDR(k)]; !ok {
				b := &c23Block{CIDR: c23CIDR(k), K: k, Aff: prefer}
				w.blocks[b.CIDR] = b
				return b, 0
			}
		}
	}
	if len(cands) == 0 {
		return nil, -1
	}
	b := cands[rapid.IntRange(0, len(cands)-1).Draw(t, "blockPick")]
	for ord, a := range b.Allocs {
		if a == nil {
			return b, ord
		}
	}
	return nil, -1
}

func (e *c23Env) allocate(t *rapid.T, cnode, handle string, hasHandle bool, attrs map[string]string) *c23Alloc {
	b, ord := e.freeSlot(t, cnode)
	if b == nil {
		return nil
	}
	a := &c23Alloc{IP: c23IP(b.K, ord), Handle: handle, HasHandle: hasHandle, Attrs: attrs, Seq: b.Seq + 1}
	b.Allocs[ord] = a
	e.w.touch(b)
	return a
}

func (w *c23World) allocsOfPod(pod string, gen int) []*c23Alloc {
	var out []*c23Alloc
	h := fmt.Sprintf("h-%s-%d", pod, gen)
	for _, cidr := range c23Keys(w.blocks) {
		for _, a := range w.blocks[cidr].Allocs {
			if a != nil && a.Handle == h {
				out = append(out, a)
			}
		}
	}
	return out
}

func c23Run(t *rapid.T, rec *ev.Recorder) {
	kdd := rapid.IntRange(0, 4).Draw(t, "etcdMode") >= 2
	var leakGrace *time.Duration
	switch rapid.IntRange(0, 9).Draw(t, "graceKind") {
	case 0:
	case 1:
		z := time.Duration(0)
		leakGrace = &z
	case 2, 3, 4:
		g := 10*time.Minute + 30*time.Second
		leakGrace = &g
	default:
		g := 2*time.Minute + 30*time.Second
		leakGrace = &g
	}
	e := c23NewEnv(kdd, leakGrace)
	w := e.w
	// The three findings these signatures belonged to are fixed in the repo; ev.Known() stays in
	// place so that a re-opened finding can be excluded again by listing it.
	knownAttrs := ev.Known(c23KnownAttrs)
	knownOrder := ev.Known(c23KnownOrder)
	knownStale := ev.Known(c23KnownStaleKnode)
	deletedNodes := map[string]bool{}
	// hazards reports (and counts) the known-finding situations the next sync would run into.
	hazards := func(full bool) bool {
		skip := false
		if e.orderHazard(full) {
			e.classes["order-hazard"] = true
			if knownOrder {
				rec.Excluded(c23KnownOrder)
				skip = true
			}
		}
		if e.staleKnodeHazard(full) {
			e.classes["stale-knode-hazard"] = true
			if knownStale {
				rec.Excluded(c23KnownStaleKnode)
				skip = true
			}
		}
		return skip
	}
	// Plain nodeAdd uses five names, each at most once; name reuse happens through the explicit
	// nodeReuse / nodeReuseAfterFailedRelease steps.
	nodeNames := []string{"n0", "n1", "n2", "n3", "n4"}
	usedNodes := map[string]bool{"n0": true, "n1": true}
	podNames := []string{"p0", "p1", "p2", "p3"}
	vmNames := []string{"vm0", "vm1"}
	e.nodeAdd("n0")
	e.nodeAdd("n1")
	if rapid.IntRange(0, 9).Draw(t, "lateInSync") != 0 {
		e.c.handleUpdate(bapi.InSync)
	}
	existingNodes := func() []string { return c23Keys(w.k8sNodes) }
	check := func(where string) {
		if d := e.checkBookkeeping(); d != "" {
			e.violate("R5 (%s): %s", where, d)
		}
		if len(e.violations) > 0 {
			t.Fatalf("C23 violated: %s\nhistory:\n  %s\nstate:\n%s", strings.Join(e.violations, "\n  AND "), strings.Join(e.hist, "\n  "), e.describe())
		}
	}
	ops := []string{
		"podAdd", "podAdd", "cniAdd", "cniAdd", "cniAdd", "podReport", "podDel", "podDel", "podDel", "podResched", "podFinish",
		"cacheSync", "nodeAdd", "nodeAdd", "nodeDel", "calicoNodeDel", "tunnelAdd", "vmAlloc", "vmToggle", "vmiToggle", "oddAlloc",
		"seqBump", "blockAdd", "blockUnaffine", "blockDel", "lateRelease", "vmAttrRewrite", "podRecreateForLeak", "podRecreateForLeak", "restartRace", "restartRace", "restartRace", "restartRace", "nodeReuse", "nodeReuseAfterFailedRelease", "nodeReuseAfterFailedRelease", "nodeReuseAfterFailedRelease", "foreignNode", "foreignNode", "foreignAlloc", "foreignAlloc", "foreignAlloc",
		"deliver", "deliver", "deliver", "tick", "tick", "tick", "sync", "sync", "sync", "sync", "sync", "inSync",
	}
	nOps := rapid.IntRange(8, ev.Scale(45, 90)).Draw(t, "nOps")
	for i := 0; i < nOps; i++ {
		switch op := rapid.SampledFrom(ops).Draw(t, "op"); op {
		case "podAdd":
			name := rapid.SampledFrom(podNames).Draw(t, "pod")
			nodes := existingNodes()
			if _, ok := w.podsLive[name]; ok || len(nodes) == 0 {
				continue
			}
			w.podGen++
			w.podsLive[name] = &c23Pod{Node: rapid.SampledFrom(nodes).Draw(t, "node"), Gen: w.podGen}
			lag := rapid.IntRange(0, 2).Draw(t, "informerLag") == 0
			if !lag {
				e.cacheSetPod(name)
			}
			e.log("podAdd(%s on %s, lag=%v)", name, w.podsLive[name].Node, lag)
		case "cniAdd":
			var cands []string
			for _, n := range c23Keys(w.podsLive) {
				p := w.podsLive[n]
				if len(w.allocsOfPod(n, p.Gen)) == 0 && !p.Finished && w.k8sNodes[p.Node] {
					cands = append(cands, n)
				}
			}
			if len(cands) == 0 {
				continue
			}
			name := rapid.SampledFrom(cands).Draw(t, "pod")
			p := w.podsLive[name]
			cn := w.calicoName(p.Node)
			h := fmt.Sprintf("h-%s-%d", name, p.Gen)
			nIPs := rapid.IntRange(1, 2).Draw(t, "nIPs")
			var ips []string
			for j := 0; j < nIPs; j++ {
				attrs := map[string]string{ipam.AttributeNode: cn, ipam.AttributePod: name, ipam.AttributeNamespace: c23NS}
				if a := e.allocate(t, cn, h, true, attrs); a != nil {
					ips = append(ips, a.IP)
				}
			}
			if len(ips) > 0 && rapid.IntRange(0, 2).Draw(t, "reportNow") > 0 {
				p.IPs = ips[:rapid.IntRange(1, len(ips)).Draw(t, "reported")]
				if _, ok := w.podsCache[name]; ok && w.podsCache[name].Gen == p.Gen && rapid.IntRange(0, 3).Draw(t, "informerLag") != 0 {
					e.cacheSetPod(name)
				}
			}
			e.log("cniAdd(%s -> %v, reported %v)", name, ips, p.IPs)
		case "podReport":
			var cands []string
			for _, n := range c23Keys(w.podsLive) {
				p := w.podsLive[n]
				if len(p.IPs) == 0 && len(w.allocsOfPod(n, p.Gen)) > 0 {
					cands = append(cands, n)
				}
			}
			if len(cands) == 0 {
				continue
			}
			name := rapid.SampledFrom(cands).Draw(t, "pod")
			p := w.podsLive[name]
			al := w.allocsOfPod(name, p.Gen)
			for _, a := range al[:rapid.IntRange(1, len(al)).Draw(t, "reported")] {
				p.IPs = append(p.IPs, a.IP)
			}
			if cp, ok := w.podsCache[name]; ok && cp.Gen == p.Gen && rapid.IntRange(0, 3).Draw(t, "informerLag") != 0 {
				e.cacheSetPod(name)
			}
			e.log("podReport(%s -> %v)", name, p.IPs)
		case "podDel", "podResched":
			names := c23Keys(w.podsLive)
			if len(names) == 0 {
				continue
			}
			name := rapid.SampledFrom(names).Draw(t, "pod")
			p := w.podsLive[name]
			cniDel := rapid.IntRange(0, 2).Draw(t, "cniDelRuns") == 0
			if cniDel {
				for _, a := range w.allocsOfPod(name, p.Gen) {
					b, ord := w.findIP(a.IP)
					b.Allocs[ord] = nil
					w.touch(b)
				}
			}
			delete(w.podsLive, name)
			lag := rapid.IntRange(0, 3).Draw(t, "informerLag") == 0
			e.log("%s(%s, cniDel=%v, lag=%v)", op, name, cniDel, lag)
			if op == "podResched" {
				if nodes := existingNodes(); len(nodes) > 0 {
					w.podGen++
					w.podsLive[name] = &c23Pod{Node: rapid.SampledFrom(nodes).Draw(t, "node"), Gen: w.podGen}
					e.log("  recreated on %s", w.podsLive[name].Node)
				}
			}
			if !lag {
				e.cacheSetPod(name)
			}
		case "podRecreateForLeak":
			// The pod-restart race: a pod with the name (and node) of an allocation whose pod is
			// gone comes back, usually before the informer has caught up.
			b, ord := e.pickAlloc(t, func(a *c23Alloc) bool {
				if !c23IsPod(a.Attrs) || c23IsVM(a.Attrs) || a.Attrs[ipam.AttributeNamespace] != c23NS {
					return false
				}
				_, exists := w.podsLive[a.Attrs[ipam.AttributePod]]
				kn, _ := w.knodeFor(a.Attrs[ipam.AttributeNode])
				return !exists && kn != "" && w.k8sNodes[kn] && a.Attrs[ipam.AttributePod] != "ghost"
			})
			if b == nil {
				continue
			}
			a := b.Allocs[ord]
			name := a.Attrs[ipam.AttributePod]
			kn, _ := w.knodeFor(a.Attrs[ipam.AttributeNode])
			w.podGen++
			p := &c23Pod{Node: kn, Gen: w.podGen}
			if rapid.Bool().Draw(t, "holdsTheIP") {
				p.IPs = []string{a.IP}
			}
			w.podsLive[name] = p
			lag := rapid.IntRange(0, 3).Draw(t, "informerLag") != 0
			if !lag {
				e.cacheSetPod(name)
			}
			e.classes["pod-recreated-for-leaked-allocation"] = true
			e.log("podRecreateForLeak(%s on %s ips=%v lag=%v)", name, kn, p.IPs, lag)
		case "restartRace":
			// The race the final re-validation exists for, as one macro step: an allocation the GC
			// has already marked as a leak candidate sits out its grace period, then the pod comes
			// back (informer usually lagging) right before the next sync.
			var cands []*c23SeenAlloc
			for _, cidr := range c23Keys(e.seen) {
				for _, id := range c23Keys(e.seen[cidr].allocs) {
					sa := e.seen[cidr].allocs[id]
					kn, _ := w.knodeFor(sa.Attrs[ipam.AttributeNode])
					_, exists := w.podsLive[sa.Attrs[ipam.AttributePod]]
					if sa.leakedAt != nil && c23IsPod(sa.Attrs) && !c23IsVM(sa.Attrs) && !exists && kn != "" && w.k8sNodes[kn] && sa.Attrs[ipam.AttributePod] != "ghost" {
						cands = append(cands, sa)
					}
				}
			}
			if len(cands) == 0 {
				continue
			}
			sa := cands[rapid.IntRange(0, len(cands)-1).Draw(t, "candidate")]
			e.advance(11 * time.Minute)
			name := sa.Attrs[ipam.AttributePod]
			kn, _ := w.knodeFor(sa.Attrs[ipam.AttributeNode])
			w.podGen++
			p := &c23Pod{Node: kn, Gen: w.podGen}
			if rapid.Bool().Draw(t, "holdsTheIP") {
				p.IPs = []string{sa.IP}
			}
			w.podsLive[name] = p
			lag := rapid.IntRange(0, 3).Draw(t, "informerLag") != 0
			if !lag {
				e.cacheSetPod(name)
			}
			e.classes["pod-recreated-for-leaked-allocation"] = true
			e.log("restartRace: tick(11m) podRecreate(%s on %s ips=%v lag=%v)", name, kn, p.IPs, lag)
			e.failMode = 0
			full := rapid.Bool().Draw(t, "periodic")
			if hazards(full) {
				continue
			}
			e.sync(full)
			check("after restartRace sync")
		case "podFinish":
			names := c23Keys(w.podsLive)
			if len(names) == 0 {
				continue
			}
			name := rapid.SampledFrom(names).Draw(t, "pod")
			p := w.podsLive[name]
			p.Finished = true
			p.Evicted = rapid.Bool().Draw(t, "evicted")
			if cp, ok := w.podsCache[name]; ok && cp.Gen == p.Gen {
				e.cacheSetPod(name)
			}
			e.log("podFinish(%s, evicted=%v)", name, p.Evicted)
		case "cacheSync":
			e.cacheSync()
			e.log("cacheSync")
		case "nodeAdd":
			n := rapid.SampledFrom(nodeNames).Draw(t, "node")
			if usedNodes[n] {
				continue
			}
			usedNodes[n] = true
			e.nodeAdd(n)
			e.log("nodeAdd(%s)", n)
		case "nodeDel":
			nodes := existingNodes()
			if len(nodes) == 0 {
				continue
			}
			n := rapid.SampledFrom(nodes).Draw(t, "node")
			e.nodeDel(n)
			deletedNodes[n] = true
			e.classes["node-deleted"] = true
			e.log("nodeDel(%s)", n)
		case "nodeReuse":
			// A node re-registers under the name of a node that was deleted earlier.
			var cands []string
			for _, n := range c23Keys(deletedNodes) {
				if !w.k8sNodes[n] {
					cands = append(cands, n)
				}
			}
			if len(cands) == 0 {
				continue
			}
			n := rapid.SampledFrom(cands).Draw(t, "node")
			e.nodeAdd(n)
			e.classes["node-name-reused"] = true
			e.log("nodeReuse(%s)", n)
		case "nodeReuseAfterFailedRelease":
			// Macro: a node goes away, the sync that would release its addresses fails to release
			// them, the node re-registers under the same name, then the next sync runs.
			nodes := existingNodes()
			if len(nodes) == 0 {
				continue
			}
			n := rapid.SampledFrom(nodes).Draw(t, "node")
			cn := w.calicoName(n)
			if b, _ := e.findHandle("vxlan-tunnel-addr-" + cn); b == nil && rapid.IntRange(0, 3).Draw(t, "giveTunnelAddress") != 0 {
				e.allocate(t, cn, "vxlan-tunnel-addr-"+cn, true, map[string]string{ipam.AttributeNode: cn, ipam.AttributeType: ipam.AttributeTypeVXLAN})
			}
			e.deliver(len(w.events))
			e.nodeDel(n)
			deletedNodes[n] = true
			if !w.kdd && rapid.Bool().Draw(t, "calicoNodeGoneToo") {
				e.calicoNodeDel(cn)
			}
			e.log("nodeReuseAfterFailedRelease: nodeDel(%s)", n)
			e.failMode = rapid.SampledFrom([]int{1, 2, 2}).Draw(t, "failMode")
			if hazards(true) {
				e.failMode = 0
				continue
			}
			before := e.releases
			e.sync(true)
			check("after nodeReuseAfterFailedRelease sync 1")
			e.failMode = 0
			e.nodeAdd(n)
			e.classes["node-name-reused"] = true
			if e.releases > before {
				e.classes["node-name-reused-after-failed-release"] = true
			}
			e.log("  nodeReuse(%s)", n)
			if rapid.Bool().Draw(t, "deliverFirst") {
				e.deliver(len(w.events))
			}
			// The owners of addresses that were written off while the node was gone may come back
			// with it (the pods of a node that re-registers, still holding their addresses).
			var revived []string
			if rapid.IntRange(0, 3).Draw(t, "ownersComeBack") != 0 {
				for _, cidr := range c23Keys(e.seen) {
					for _, id := range c23Keys(e.seen[cidr].allocs) {
						sa := e.seen[cidr].allocs[id]
						name := sa.Attrs[ipam.AttributePod]
						if sa.Attrs[ipam.AttributeNode] != cn || !c23IsPod(sa.Attrs) || c23IsVM(sa.Attrs) || !strings.HasPrefix(name, "p") {
							continue
						}
						if wb, wo := w.findIP(sa.IP); wb == nil || wb.Allocs[wo].Handle != sa.Handle {
							continue
						}
						if p, ok := w.podsLive[name]; ok {
							if len(revived) > 0 && revived[len(revived)-1] == name && p.Node == n {
								p.IPs = append(p.IPs, sa.IP) // second address of the same handle
								e.cacheSetPod(name)
							}
							continue
						}
						if rapid.IntRange(0, 3).Draw(t, "ownerBack") == 0 {
							continue
						}
						w.podGen++
						w.podsLive[name] = &c23Pod{Node: n, Gen: w.podGen, IPs: []string{sa.IP}}
						e.cacheSetPod(name)
						revived = append(revived, name)
					}
				}
				if len(revived) > 0 {
					e.classes["written-off-on-node-gone-path-then-owner-back"] = true
					e.log("  owners back: %v", revived)
				}
			}
			full := rapid.Bool().Draw(t, "periodic")
			if hazards(full) {
				continue
			}
			e.sync(full)
			check("after nodeReuseAfterFailedRelease sync 2")
			if len(revived) > 0 && rapid.Bool().Draw(t, "forceDeleteLater") {
				// Later one of those pods is force-deleted: gone from the API (informer caught up), no
				// CNI DEL yet - the grace period is what protects its address now.
				name := rapid.SampledFrom(revived).Draw(t, "forceDeleted")
				if _, ok := w.podsLive[name]; ok {
					e.advance(time.Duration(rapid.SampledFrom([]int{0, 1, 2}).Draw(t, "minutes")) * time.Minute)
					delete(w.podsLive, name)
					e.cacheSetPod(name)
					e.classes["owner-back-then-force-deleted"] = true
					e.log("  forceDelete(%s)", name)
					full := rapid.Bool().Draw(t, "periodic")
					if !hazards(full) {
						e.sync(full)
						check("after nodeReuseAfterFailedRelease sync 3")
					}
				}
			}
		case "calicoNodeDel":
			if w.kdd {
				continue
			}
			var cands []string
			for _, cn := range c23Keys(w.calicoNodes) {
				if kn := w.calicoNodes[cn]; kn != "" && !w.k8sNodes[kn] {
					cands = append(cands, cn)
				}
			}
			if len(cands) == 0 {
				continue
			}
			cn := rapid.SampledFrom(cands).Draw(t, "calicoNode")
			e.calicoNodeDel(cn)
			e.c.fullScanNextSync("periodic sync")
			e.log("calicoNodeDel(%s)", cn)
		case "foreignNode":
			// etcd datastore shared with hosts that are not Kubernetes nodes.
			if w.kdd {
				continue
			}
			cn := rapid.SampledFrom([]string{"bm0", "bm1"}).Draw(t, "foreignNode")
			if _, ok := w.calicoNodes[cn]; ok {
				if rapid.IntRange(0, 3).Draw(t, "foreignNodeLeaves") == 0 {
					e.calicoNodeDel(cn)
					e.c.fullScanNextSync("periodic sync")
					e.log("foreignNodeDel(%s)", cn)
				}
				continue
			}
			queued := false
			for _, allocs := range e.c.allocationsByBlock {
				for _, a := range allocs {
					if a.node() == cn && a.confirmedLeak {
						queued = true
					}
				}
			}
			if queued {
				// The node name comes back as a non-Kubernetes node while leaks confirmed during
				// its absence are still queued (their release failed).
				e.classes["non-kubernetes-node-returns-with-queued-leaks"] = true
			}
			via := rapid.IntRange(0, 3).Draw(t, "deliveredBySyncer") != 0
			e.foreignNodeAdd(cn, via)
			e.classes["non-kubernetes-node"] = true
			e.log("foreignNodeAdd(%s, viaSyncer=%v)", cn, via)
		case "foreignAlloc":
			var cands []string
			for _, cn := range c23Keys(w.calicoNodes) {
				if w.calicoNodes[cn] == "" {
					cands = append(cands, cn)
				}
			}
			if len(cands) == 0 {
				continue
			}
			cn := rapid.SampledFrom(cands).Draw(t, "foreignNode")
			kind := rapid.SampledFrom([]string{"tunnel", "tunnel", "podType", "emptyBlock", "unknownSource"}).Draw(t, "foreignKind")
			switch kind {
			case "tunnel":
				h := "vxlan-tunnel-addr-" + cn
				if b, _ := e.findHandle(h); b == nil {
					if a := e.allocate(t, cn, h, true, map[string]string{ipam.AttributeNode: cn, ipam.AttributeType: ipam.AttributeTypeVXLAN}); a != nil {
						e.classes["non-kubernetes-node-tunnel-address"] = true
						e.log("foreignAlloc(tunnel on %s -> %s)", cn, a.IP)
					}
				}
			case "podType":
				w.podGen++
				if a := e.allocate(t, cn, fmt.Sprintf("foreign-%d", w.podGen), true, map[string]string{ipam.AttributeNode: cn, ipam.AttributePod: "foreign-workload", ipam.AttributeNamespace: c23NS}); a != nil {
					e.classes["non-kubernetes-node-workload-address"] = true
					e.log("foreignAlloc(podType on %s -> %s)", cn, a.IP)
				}
			case "unknownSource":
				w.podGen++
				if a := e.allocate(t, cn, fmt.Sprintf("foreign-%d", w.podGen), true, map[string]string{ipam.AttributeNode: cn}); a != nil {
					e.log("foreignAlloc(unknownSource on %s -> %s)", cn, a.IP)
				}
			case "emptyBlock":
				for k := 0; k < c23NumBlocks; k++ {
					if _, ok := w.blocks[c23CIDR(k)]; !ok {
						b := &c23Block{CIDR: c23CIDR(k), K: k, Aff: cn}
						w.blocks[b.CIDR] = b
						w.touch(b)
						e.log("foreignAlloc(empty block %s aff %s)", b.CIDR, cn)
						break
					}
				}
			}
		case "tunnelAdd":
			nodes := existingNodes()
			if len(nodes) == 0 {
				continue
			}
			cn := w.calicoName(rapid.SampledFrom(nodes).Draw(t, "node"))
			h := "vxlan-tunnel-addr-" + cn
			dup := false
			for _, cidr := range c23Keys(w.blocks) {
				for _, a := range w.blocks[cidr].Allocs {
					if a != nil && a.Handle == h {
						dup = true
					}
				}
			}
			if dup {
				continue
			}
			if a := e.allocate(t, cn, h, true, map[string]string{ipam.AttributeNode: cn, ipam.AttributeType: ipam.AttributeTypeVXLAN}); a != nil {
				e.log("tunnelAdd(%s -> %s)", cn, a.IP)
			}
		case "vmAlloc":
			nodes := existingNodes()
			if len(nodes) == 0 {
				continue
			}
			vm := rapid.SampledFrom(vmNames).Draw(t, "vm")
			h := "vm-" + vm
			if b, _ := e.findHandle(h); b != nil {
				continue
			}
			cn := w.calicoName(rapid.SampledFrom(nodes).Draw(t, "node"))
			attrs := map[string]string{ipam.AttributeNode: cn, ipam.AttributePod: "virt-launcher-" + vm + "-a", ipam.AttributeNamespace: c23NS, ipam.AttributeVMIName: vm}
			if rapid.IntRange(0, 7).Draw(t, "vmiNameEmpty") == 0 {
				attrs[ipam.AttributeVMIName] = ""
			}
			if a := e.allocate(t, cn, h, true, attrs); a != nil {
				if rapid.IntRange(0, 3).Draw(t, "vmExists") != 0 {
					w.vms[vm] = true
					_ = e.vmIdx.Add(&kubevirtv1.VirtualMachine{ObjectMeta: metav1.ObjectMeta{Name: vm, Namespace: c23NS}})
				}
				e.log("vmAlloc(%s on %s -> %s, vm exists=%v)", vm, cn, a.IP, w.vms[vm])
			}
		case "vmToggle":
			vm := rapid.SampledFrom(vmNames).Draw(t, "vm")
			obj := &kubevirtv1.VirtualMachine{ObjectMeta: metav1.ObjectMeta{Name: vm, Namespace: c23NS}}
			if w.vms[vm] {
				delete(w.vms, vm)
				_ = e.vmIdx.Delete(obj)
			} else {
				w.vms[vm] = true
				_ = e.vmIdx.Add(obj)
			}
			e.log("vmToggle(%s -> %v)", vm, w.vms[vm])
		case "vmiToggle":
			vm := rapid.SampledFrom(vmNames).Draw(t, "vm")
			obj := &kubevirtv1.VirtualMachineInstance{ObjectMeta: metav1.ObjectMeta{Name: vm, Namespace: c23NS}}
			if _, ok := w.vmis[vm]; ok {
				delete(w.vmis, vm)
				_ = e.vmiIdx.Delete(obj)
				e.log("vmiDel(%s)", vm)
			} else {
				owned := rapid.Bool().Draw(t, "ownedByVM")
				w.vmis[vm] = owned
				if owned {
					obj.OwnerReferences = []metav1.OwnerReference{{Kind: "VirtualMachine", Name: vm}}
				}
				_ = e.vmiIdx.Add(obj)
				e.log("vmiAdd(%s, owned=%v)", vm, owned)
			}
		case "oddAlloc":
			nodes := existingNodes()
			if len(nodes) == 0 {
				continue
			}
			cn := w.calicoName(rapid.SampledFrom(nodes).Draw(t, "node"))
			kind := rapid.SampledFrom([]string{"noHandle", "nilAttrs", "nodeOnly", "windows", "noNamespace", "noNodeAttr"}).Draw(t, "oddKind")
			w.podGen++
			h := fmt.Sprintf("odd-%d", w.podGen)
			var a *c23Alloc
			switch kind {
			case "noHandle":
				a = e.allocate(t, cn, "", false, map[string]string{ipam.AttributeNode: cn, ipam.AttributePod: "ghost", ipam.AttributeNamespace: c23NS})
			case "nilAttrs":
				a = e.allocate(t, cn, h, true, nil)
			case "nodeOnly":
				a = e.allocate(t, cn, h, true, map[string]string{ipam.AttributeNode: cn})
			case "windows":
				a = e.allocate(t, cn, ipam.WindowsReservedHandle, true, map[string]string{ipam.AttributeNode: cn})
			case "noNamespace":
				a = e.allocate(t, cn, h, true, map[string]string{ipam.AttributeNode: cn, ipam.AttributePod: "ghost"})
			case "noNodeAttr":
				a = e.allocate(t, cn, h, true, map[string]string{ipam.AttributePod: "ghost", ipam.AttributeNamespace: c23NS})
			}
			if a != nil {
				e.classes["odd-"+kind] = true
				e.log("oddAlloc(%s on %s -> %s)", kind, cn, a.IP)
			}
		case "seqBump":
			b, ord := e.pickAlloc(t, func(a *c23Alloc) bool { return a.HasHandle })
			if b == nil {
				continue
			}
			w.touch(b) // the release
			b.Allocs[ord].Seq = b.Seq + 1
			w.touch(b) // the re-allocation with the same handle and attributes
			e.log("seqBump(%s)", b.Allocs[ord].IP)
		case "vmAttrRewrite":
			b, ord := e.pickAlloc(t, func(a *c23Alloc) bool { return c23IsVM(a.Attrs) && a.HasHandle })
			nodes := existingNodes()
			if b == nil || len(nodes) == 0 {
				continue
			}
			if knownAttrs {
				rec.Excluded(c23KnownAttrs)
				continue
			}
			// What the CNI plugin does for a restarted / migrated VM: SetOwnerAttributes rewrites
			// ActiveOwnerAttrs (new launcher pod, possibly another node) without touching the
			// allocation's sequence number.
			a := b.Allocs[ord]
			cn := w.calicoName(rapid.SampledFrom(nodes).Draw(t, "node"))
			na := map[string]string{}
			for k, v := range a.Attrs {
				na[k] = v
			}
			na[ipam.AttributeNode] = cn
			na[ipam.AttributePod] = a.Attrs[ipam.AttributePod] + "x"
			a.Attrs = na
			w.touch(b)
			e.classes["vm-attr-rewrite"] = true
			e.log("vmAttrRewrite(%s -> node %s)", a.IP, cn)
		case "blockAdd":
			nodes := existingNodes()
			if len(nodes) == 0 {
				continue
			}
			cn := w.calicoName(rapid.SampledFrom(nodes).Draw(t, "node"))
			for k := 0; k < c23NumBlocks; k++ {
				if _, ok := w.blocks[c23CIDR(k)]; !ok {
					b := &c23Block{CIDR: c23CIDR(k), K: k, Aff: cn}
					w.blocks[b.CIDR] = b
					w.touch(b)
					e.log("blockAdd(%s aff %s)", b.CIDR, cn)
					break
				}
			}
		case "blockUnaffine":
			var cands []string
			for _, cidr := range c23Keys(w.blocks) {
				if b := w.blocks[cidr]; b.Aff != "" && b.count() > 0 {
					cands = append(cands, cidr)
				}
			}
			if len(cands) == 0 {
				continue
			}
			b := w.blocks[rapid.SampledFrom(cands).Draw(t, "block")]
			b.Aff = ""
			w.touch(b)
			e.log("blockUnaffine(%s)", b.CIDR)
		case "blockDel":
			var cands []string
			for _, cidr := range c23Keys(w.blocks) {
				if w.blocks[cidr].count() == 0 {
					cands = append(cands, cidr)
				}
			}
			if len(cands) == 0 {
				continue
			}
			cidr := rapid.SampledFrom(cands).Draw(t, "block")
			w.deleteBlock(cidr)
			e.log("blockDel(%s)", cidr)
		case "lateRelease":
			b, ord := e.pickAlloc(t, func(a *c23Alloc) bool { return true })
			if b == nil {
				continue
			}
			e.log("lateRelease(%s)", b.Allocs[ord].IP)
			b.Allocs[ord] = nil
			w.touch(b)
		case "deliver":
			n := rapid.IntRange(1, 6).Draw(t, "events")
			if rapid.Bool().Draw(t, "all") {
				n = len(w.events)
			}
			e.log("deliver(%d of %d)", n, len(w.events))
			e.deliver(n)
			check("after delivery")
		case "tick":
			d := time.Duration(rapid.SampledFrom([]int{1, 2, 3, 6, 11}).Draw(t, "minutes")) * time.Minute
			e.advance(d)
			e.log("tick(%s)", d)
		case "inSync":
			e.c.handleUpdate(bapi.InSync)
			e.log("inSync")
		case "sync":
			if rapid.IntRange(0, 2).Draw(t, "deliverFirst") > 0 {
				e.deliver(len(w.events))
			}
			e.failMode = 0
			if rapid.IntRange(0, 7).Draw(t, "injectReleaseFailure") == 0 {
				e.failMode = rapid.IntRange(1, 2).Draw(t, "failMode")
			}
			full := rapid.IntRange(0, 2).Draw(t, "periodic") == 0
			if hazards(full) {
				continue
			}
			e.sync(full)
			check("after sync")
		}
	}
	// Closing sequence: everything delivered, informer caught up, two full syncs a long time apart.
	e.deliver(len(w.events))
	e.cacheSync()
	e.c.handleUpdate(bapi.InSync)
	e.failMode = 0
	if !hazards(true) {
		e.sync(true)
		check("after closing sync 1")
	}
	e.advance(12 * time.Minute)
	e.deliver(len(w.events))
	if !hazards(true) {
		e.sync(true)
		check("after closing sync 2")
	}

	cl := c23Keys(e.classes)
	nontrivial := e.classes["leak-candidate-revalidated"] || e.classes["handle-mixed-validity"] || e.classes["final-recheck-decides"] ||
		e.classes["release-after-grace"] || e.classes["release-node-gone"] || e.classes["release-tunnel"] || e.classes["release-block-affinity"]
	var shape []string
	for _, h := range e.hist {
		h = strings.TrimSpace(h)
		if i := strings.IndexAny(h, "(@"); i >= 0 {
			h = h[:i]
		}
		shape = append(shape, h)
	}
	rec.SizedCase(nontrivial, strings.Join(shape, ",")+"|"+strings.Join(cl, ","), len(e.hist), func() any {
		return map[string]any{"history": e.hist, "classes": cl}
	}, cl...)
}

func (e *c23Env) findHandle(h string) (*c23Block, int) {
	for _, cidr := range c23Keys(e.w.blocks) {
		b := e.w.blocks[cidr]
		for ord, a := range b.Allocs {
			if a != nil && a.Handle == h {
				return b, ord
			}
		}
	}
	return nil, -1
}

func (e *c23Env) pickAlloc(t *rapid.T, filter func(*c23Alloc) bool) (*c23Block, int) {
	type slot struct {
		b   *c23Block
		ord int
	}
	var cands []slot
	for _, cidr := range c23Keys(e.w.blocks) {
		b := e.w.blocks[cidr]
		for ord, a := range b.Allocs {
			if a != nil && filter(a) {
				cands = append(cands, slot{b, ord})
			}
		}
	}
	if len(cands) == 0 {
		return nil, -1
	}
	s := cands[rapid.IntRange(0, len(cands)-1).Draw(t, "alloc")]
	return s.b, s.ord
}

func TestVerifC23IPAMGC(t *testing.T) {
	ev.Quiet()
	rec := ev.New("C23", "ipamgc",
		"random histories of node add/delete (KDD and etcd naming; in etcd mode also Calico nodes without a Kubernetes orchRef holding tunnel / workload addresses and blocks), pod create/delete/reschedule/finish with a lagging pod informer, CNI allocations (1-2 IPs per handle, borrowed blocks), tunnel / KubeVirt VM / odd allocations, sequence-number bumps, block add/unaffine/delete, ordered block event delivery, time steps, GC syncs (dirty-only and full) with injected ReleaseIPs failures; non-trivial when a leak candidate is re-validated, a handle has addresses of mixed validity, the final live re-check decides, or something is actually released; distinct by op-kind sequence + classes",
		"owner rules are those of design/ipam/ipam-gc.md; 'in use' for a pod allocation means: pod exists now on the allocation's node, not finished, and holds the address or has none reported yet",
		"'first observed as leaked' is modelled from the documented decision tree applied at every sync to the nodes the controller scans (its dirty set / full-scan flag are read as observation points)",
		"the pod informer may lag behind the API server except that it is caught up when a node is deleted; node informer and Calico node mapping are never stale; pods are always scheduled; a deleted node's name is reused only by the explicit node-reuse steps",
		"block events are delivered in order without coalescing; no IPs in cooldown (ReleasedAt) are generated",
	)
	defer rec.Write()
	rapid.Check(t, func(t *rapid.T) { c23Run(t, rec) })
}

// TestVerifC23RegressionAttrsRewrite is the regression test (fixed in repo commit 0b6d866) for the finding
// c23-owner-attrs-rewrite-not-tracked: it FAILS while the finding reproduces.  A KubeVirt VM's
// address has its ActiveOwnerAttrs rewritten in place (new launcher pod on node n1, same sequence
// number, as cni-plugin's SetOwnerAttributes does); the controller keeps the old attributes, so
// when the old node n0 is deleted and the VM object is briefly absent the address is released at
// once instead of after the VM recreation grace period, although its node n1 exists.
func TestVerifC23RegressionAttrsRewrite(t *testing.T) {
	ev.Quiet()
	g := 2*time.Minute + 30*time.Second
	e := c23NewEnv(true, &g)
	w := e.w
	e.nodeAdd("n0")
	e.nodeAdd("n1")
	e.c.handleUpdate(bapi.InSync)
	b := &c23Block{CIDR: c23CIDR(0), K: 0, Aff: "n0"}
	w.blocks[b.CIDR] = b
	b.Allocs[0] = &c23Alloc{IP: c23IP(0, 0), Handle: "vm-vm0", HasHandle: true, Seq: 1, Attrs: map[string]string{
		ipam.AttributeNode: "n0", ipam.AttributePod: "virt-launcher-vm0-a", ipam.AttributeNamespace: c23NS, ipam.AttributeVMIName: "vm0"}}
	w.touch(b)
	w.vms["vm0"] = true
	_ = e.vmIdx.Add(&kubevirtv1.VirtualMachine{ObjectMeta: metav1.ObjectMeta{Name: "vm0", Namespace: c23NS}})
	e.deliver(len(w.events))
	e.sync(true)
	// VM restarted on n1: attributes rewritten in place.
	b.Allocs[0].Attrs = map[string]string{
		ipam.AttributeNode: "n1", ipam.AttributePod: "virt-launcher-vm0-b", ipam.AttributeNamespace: c23NS, ipam.AttributeVMIName: "vm0"}
	w.touch(b)
	e.deliver(len(w.events))
	if d := e.checkBookkeeping(); d != "" {
		e.violate("R5: %s", d)
	}
	e.nodeDel("n0")
	delete(w.vms, "vm0")
	_ = e.vmIdx.Delete(&kubevirtv1.VirtualMachine{ObjectMeta: metav1.ObjectMeta{Name: "vm0", Namespace: c23NS}})
	e.sync(false)
	if len(e.violations) > 0 {
		t.Fatalf("finding reproduces:\n  %s\nhistory:\n  %s", strings.Join(e.violations, "\n  "), strings.Join(e.hist, "\n  "))
	}
}

// TestVerifC23RegressionPartialHandle is the regression test (fixed in repo commit 8687510) for the finding
// c23-final-recheck-order-partial-handle: it FAILS while the finding reproduces.  A pod holds two
// addresses under one handle but reports only the first (dual stack in Calico, single stack in
// Kubernetes); the pod informer is stale for longer than the grace period, so the scan confirms
// both as leaks; the final live re-validation then rescues the first one - but whether the second
// one is released alone depends on the iteration order of the confirmedLeaks map.  Independent
// trials make the outcome practically certain.
func TestVerifC23RegressionPartialHandle(t *testing.T) {
	ev.Quiet()
	for trial := 0; trial < 60; trial++ {
		g := 2*time.Minute + 30*time.Second
		e := c23NewEnv(true, &g)
		w := e.w
		e.nodeAdd("n0")
		e.c.handleUpdate(bapi.InSync)
		w.podGen++
		w.podsLive["p0"] = &c23Pod{Node: "n0", Gen: w.podGen, IPs: []string{c23IP(0, 0)}} // informer never catches up
		for k := 0; k < 2; k++ {
			b := &c23Block{CIDR: c23CIDR(k), K: k, Aff: "n0"}
			w.blocks[b.CIDR] = b
			b.Allocs[0] = &c23Alloc{IP: c23IP(k, 0), Handle: "h-p0-1", HasHandle: true, Seq: 1, Attrs: map[string]string{
				ipam.AttributeNode: "n0", ipam.AttributePod: "p0", ipam.AttributeNamespace: c23NS}}
			w.touch(b)
		}
		e.deliver(len(w.events))
		e.sync(true)
		e.advance(3 * time.Minute)
		e.sync(true)
		if len(e.violations) > 0 {
			t.Fatalf("finding reproduces (trial %d):\n  %s\nhistory:\n  %s", trial, strings.Join(e.violations, "\n  "), strings.Join(e.hist, "\n  "))
		}
	}
}

// TestVerifC23RegressionStaleKnode is the regression test (fixed in repo commit 3a550b3) for the finding
// c23-stale-knode-after-node-name-reuse: it FAILS while the finding reproduces.
//
// Tunnel variant: node n0 (with a VXLAN tunnel address) is deleted; the full sync confirms the
// tunnel address as a leak (knode "") but ReleaseIPs fails; n0 re-registers under the same name;
// the retry sync is not a full scan and n0 is not in the dirty set, so the allocation still carries
// knode "" and the final re-validation (tunnel valid iff knode != "") lets the live node's tunnel
// address be released.
//
// Pod variant: as above, but another pod keeps n0 "in use" (node marked clean), p0's address is a
// confirmed leak whose release fails, then p0 is re-created on the re-registered n0 with the
// informer lagging: knode "" makes the GC ask the stale cache instead of the API server.
func TestVerifC23RegressionStaleKnode(t *testing.T) {
	ev.Quiet()
	g := 2*time.Minute + 30*time.Second
	var found []string
	{
		e := c23NewEnv(true, &g)
		w := e.w
		e.nodeAdd("n0")
		e.c.handleUpdate(bapi.InSync)
		b := &c23Block{CIDR: c23CIDR(0), K: 0, Aff: "n0"}
		w.blocks[b.CIDR] = b
		b.Allocs[0] = &c23Alloc{IP: c23IP(0, 0), Handle: "vxlan-tunnel-addr-n0", HasHandle: true, Seq: 1, Attrs: map[string]string{
			ipam.AttributeNode: "n0", ipam.AttributeType: ipam.AttributeTypeVXLAN}}
		w.touch(b)
		e.deliver(len(w.events))
		e.sync(false)
		e.nodeDel("n0")
		e.failMode = 2
		e.sync(false) // full scan requested by the node deletion; release fails
		e.failMode = 0
		e.nodeAdd("n0")
		e.sync(false) // the retry
		for _, v := range e.violations {
			found = append(found, "tunnel variant: "+v)
		}
		found = append(found, e.hist...)
	}
	{
		e := c23NewEnv(true, &g)
		w := e.w
		e.nodeAdd("n0")
		e.c.handleUpdate(bapi.InSync)
		for i, name := range []string{"p0", "p1"} {
			w.podGen++
			w.podsLive[name] = &c23Pod{Node: "n0", Gen: w.podGen, IPs: []string{c23IP(0, i)}}
			e.cacheSetPod(name)
		}
		b := &c23Block{CIDR: c23CIDR(0), K: 0, Aff: "n0"}
		w.blocks[b.CIDR] = b
		for i, name := range []string{"p0", "p1"} {
			b.Allocs[i] = &c23Alloc{IP: c23IP(0, i), Handle: "h-" + name + "-1", HasHandle: true, Seq: 1, Attrs: map[string]string{
				ipam.AttributeNode: "n0", ipam.AttributePod: name, ipam.AttributeNamespace: c23NS}}
		}
		w.touch(b)
		e.deliver(len(w.events))
		e.sync(true)
		delete(w.podsLive, "p0")
		e.cacheSetPod("p0")
		e.nodeDel("n0")
		e.failMode = 2
		e.sync(true)
		e.failMode = 0
		e.nodeAdd("n0")
		w.podGen++
		w.podsLive["p0"] = &c23Pod{Node: "n0", Gen: w.podGen}
		e.sync(false)
		for _, v := range e.violations {
			found = append(found, "pod variant: "+v)
		}
	}
	for _, f := range found {
		if strings.Contains(f, "variant: ") {
			t.Fatalf("finding reproduces:\n  %s", strings.Join(found, "\n  "))
		}
	}
}

// TestVerifC23RegressionForeignNodeQueuedLeak is the regression test (fixed in the repo) for the finding
// c23-queued-leak-survives-non-kubernetes-node-skip: it FAILS while the finding reproduces.  A
// Calico node without a Kubernetes orchRef (bm0) holds a tunnel address and a workload address.
// Its node resource is deleted; the GC rightly confirms both as leaks (node unknown) but ReleaseIPs
// fails; bm0 registers again (still not a Kubernetes node).  The scan now skips bm0
// (ErrorNotKubernetes) but leaves the two confirmed leaks queued with knode "", and the final
// re-validation releases the live node's tunnel address and its workload address.
func TestVerifC23RegressionForeignNodeQueuedLeak(t *testing.T) {
	ev.Quiet()
	g := 2*time.Minute + 30*time.Second
	e := c23NewEnv(false, &g)
	w := e.w
	e.nodeAdd("n0")
	e.c.handleUpdate(bapi.InSync)
	e.foreignNodeAdd("bm0", true)
	b := &c23Block{CIDR: c23CIDR(0), K: 0, Aff: "bm0"}
	w.blocks[b.CIDR] = b
	b.Allocs[0] = &c23Alloc{IP: c23IP(0, 0), Handle: "vxlan-tunnel-addr-bm0", HasHandle: true, Seq: 1, Attrs: map[string]string{
		ipam.AttributeNode: "bm0", ipam.AttributeType: ipam.AttributeTypeVXLAN}}
	b.Allocs[1] = &c23Alloc{IP: c23IP(0, 1), Handle: "foreign-1", HasHandle: true, Seq: 1, Attrs: map[string]string{
		ipam.AttributeNode: "bm0", ipam.AttributePod: "foreign-workload", ipam.AttributeNamespace: c23NS}}
	w.touch(b)
	e.deliver(len(w.events))
	e.sync(true)
	if e.releases != 0 {
		t.Fatalf("HARNESS-GAP: scenario changed: the GC touched a live non-Kubernetes node before anything happened: %v", e.hist)
	}
	e.calicoNodeDel("bm0")
	e.failMode = 2
	e.sync(true) // node unknown: both confirmed, release fails
	e.failMode = 0
	pre := len(e.violations)
	e.foreignNodeAdd("bm0", true)
	e.sync(false)
	e.sync(true)
	if len(e.violations) > pre || pre > 0 {
		t.Fatalf("finding reproduces:\n  %s\nhistory:\n  %s", strings.Join(e.violations, "\n  "), strings.Join(e.hist, "\n  "))
	}
}
