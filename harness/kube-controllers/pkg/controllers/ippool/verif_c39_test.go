package ippool

// C39 — overlapping IP pools resolve to one allocatable pool per address.
//
// The real IPPoolController.reconcile() is driven synchronously against a miniature API server
// (resourceVersion conflicts, status subresource, finalizer-gated deletion) that the harness
// keeps in plain maps and exposes to the controller through reactors on the generated fake
// clientset.  Before every reconcile the pool / block informer caches are replaced by the
// store's current content (synced cache).
//
// Oracle (the statement of C39, evaluated on the store after every reconcile):
//   1. no two allocatable pools overlap;
//   2. a pool that was allocatable before the reconcile (and is still enabled and not being
//      deleted) is allocatable afterwards;
//   3. a terminating pool masks every overlapping pool for as long as it exists;
//   4. a pool that was allocatable when its deletion was requested never disappears while an
//      IPAM block inside its CIDR exists.
// "Allocatable" is what IPAM reads (libcalico-go clientv3 filterIPPool): not being deleted, not
// Spec.Disabled and no Allocatable=False condition.

import (
	"context"
	"fmt"
	"net/netip"
	"sort"
	"strings"
	"testing"
	"time"

	v3 "github.com/projectcalico/api/pkg/apis/projectcalico/v3"
	"github.com/projectcalico/api/pkg/client/clientset_generated/clientset/fake"
	apierrors "k8s.io/apimachinery/pkg/api/errors"
	metav1 "k8s.io/apimachinery/pkg/apis/meta/v1"
	"k8s.io/apimachinery/pkg/runtime"
	"k8s.io/apimachinery/pkg/runtime/schema"
	k8stesting "k8s.io/client-go/testing"
	"k8s.io/client-go/tools/cache"
	"k8s.io/client-go/util/workqueue"
	"pgregory.net/rapid"

	"github.com/projectcalico/calico/libcalico-go/lib/ipam"
	cnet "github.com/projectcalico/calico/libcalico-go/lib/net"
	"github.com/projectcalico/calico/verifkit/ev"
)

// Nested CIDR families: every v4 entry overlaps at least one other entry; same for v6.  All
// satisfy the IPPool CRD validation (strictly masked, prefix length <= block size).
var c39CIDRs = []string{
	"10.0.0.0/16", "10.0.0.0/20", "10.0.0.0/24", "10.0.1.0/24", "10.0.16.0/20", "10.0.0.0/26",
	"10.0.0.64/26", "10.1.0.0/16", "10.0.0.0/15",
	"fd00::/48", "fd00::/64", "fd00:0:0:1::/64", "fd00::/112",
}

type c39Informer struct {
	cache.SharedIndexInformer
	indexer cache.Indexer
}

func (f *c39Informer) GetIndexer() cache.Indexer { return f.indexer }
func (f *c39Informer) GetStore() cache.Store     { return f.indexer }

type c39IPAM struct {
	ipam.Interface
	released []string
}

func (f *c39IPAM) ReleasePoolAffinities(ctx context.Context, pool cnet.IPNet) error {
	f.released = append(f.released, pool.String())
	return nil
}

// c39Store is the miniature API server.
type c39Store struct {
	pools  map[string]*v3.IPPool
	blocks map[string]*v3.IPAMBlock
	rv     int
	now    int64 // seconds
	// allocAtDelete records, per pool name, whether the pool was allocatable at the moment its
	// deletion was requested.
	allocAtDelete map[string]bool
	// vanished lists violations of clause 4 noticed when a pool disappears.
	clause4 []string
	writes  int
	// faults: "status:<pool>" / "update:<pool>" -> "conflict" | "error"; each fails that write once.
	faults    map[string]string
	faultsHit []string
}

func (s *c39Store) nextRV() string { s.rv++; return fmt.Sprint(s.rv) }

func c39Prefix(cidr string) netip.Prefix { return netip.MustParsePrefix(cidr) }

func c39Overlap(a, b string) bool { return c39Prefix(a).Overlaps(c39Prefix(b)) }

func (s *c39Store) blocksIn(cidr string) []string {
	p := c39Prefix(cidr)
	var out []string
	for _, n := range c39SortedKeys(s.blocks) {
		bp := c39Prefix(s.blocks[n].Spec.CIDR)
		if p.Contains(bp.Addr()) && bp.Bits() >= p.Bits() {
			out = append(out, s.blocks[n].Spec.CIDR)
		}
	}
	return out
}

func c39SortedKeys[V any](m map[string]V) []string {
	out := make([]string, 0, len(m))
	for k := range m {
		out = append(out, k)
	}
	sort.Strings(out)
	return out
}

func c39CondStatus(p *v3.IPPool) string {
	if p.Status == nil {
		return ""
	}
	st := ""
	for _, c := range p.Status.Conditions {
		if c.Type == v3.IPPoolConditionAllocatable {
			if st != "" && st != string(c.Status) {
				return "conflicting"
			}
			st = string(c.Status)
		}
	}
	return st
}

// c39Allocatable mirrors what IPAM does with a pool (clientv3.filterIPPool).
func c39Allocatable(p *v3.IPPool) bool {
	if !p.DeletionTimestamp.IsZero() || p.Spec.Disabled {
		return false
	}
	st := c39CondStatus(p)
	return st != string(metav1.ConditionFalse) && st != "conflicting"
}

// vanish removes a pool from the store and evaluates clause 4.
func (s *c39Store) vanish(name, how string) {
	p := s.pools[name]
	if s.allocAtDelete[name] {
		if bl := s.blocksIn(p.Spec.CIDR); len(bl) > 0 {
			s.clause4 = append(s.clause4, fmt.Sprintf("pool %s (%s) was allocatable when deleted and disappeared (%s) while blocks %v exist", name, p.Spec.CIDR, how, bl))
		}
	}
	delete(s.pools, name)
	delete(s.allocAtDelete, name)
}

// react implements Update / UpdateStatus for ippools the way the API server does for a CRD with
// a status subresource.
func (s *c39Store) react(a k8stesting.Action) (bool, runtime.Object, error) {
	ua, ok := a.(k8stesting.UpdateAction)
	if !ok {
		return true, nil, fmt.Errorf("HARNESS-GAP: unexpected ippools action %T", a)
	}
	obj := ua.GetObject().(*v3.IPPool)
	gr := schema.GroupResource{Group: "projectcalico.org", Resource: "ippools"}
	cur, exists := s.pools[obj.Name]
	if !exists {
		return true, nil, apierrors.NewNotFound(gr, obj.Name)
	}
	if obj.ResourceVersion != cur.ResourceVersion {
		return true, nil, apierrors.NewConflict(gr, obj.Name, fmt.Errorf("resourceVersion %q != %q", obj.ResourceVersion, cur.ResourceVersion))
	}
	fk := "update:" + obj.Name
	if a.GetSubresource() == "status" {
		fk = "status:" + obj.Name
	}
	if kind, ok := s.faults[fk]; ok {
		delete(s.faults, fk)
		s.faultsHit = append(s.faultsHit, fk+"="+kind)
		if kind == "conflict" {
			return true, nil, apierrors.NewConflict(gr, obj.Name, fmt.Errorf("injected: the object has been modified"))
		}
		return true, nil, apierrors.NewInternalError(fmt.Errorf("injected: etcdserver: request timed out"))
	}
	s.writes++
	var upd *v3.IPPool
	if a.GetSubresource() == "status" {
		upd = cur.DeepCopy()
		upd.Status = obj.Status.DeepCopy()
	} else if a.GetSubresource() == "" {
		upd = obj.DeepCopy()
		upd.Status = cur.Status.DeepCopy()
		upd.CreationTimestamp = cur.CreationTimestamp
		upd.DeletionTimestamp = cur.DeletionTimestamp.DeepCopy()
		upd.UID = cur.UID
		if upd.Spec.CIDR != cur.Spec.CIDR {
			return true, nil, apierrors.NewBadRequest("CIDR cannot be changed")
		}
	} else {
		return true, nil, fmt.Errorf("HARNESS-GAP: unexpected subresource %q", a.GetSubresource())
	}
	upd.ResourceVersion = s.nextRV()
	s.pools[obj.Name] = upd
	if upd.DeletionTimestamp != nil && len(upd.Finalizers) == 0 {
		s.vanish(obj.Name, "finalizer removed by the controller")
	}
	return true, upd.DeepCopy(), nil
}

func (s *c39Store) create(name, cidr string, disabled bool, blockSize int) {
	s.pools[name] = &v3.IPPool{
		ObjectMeta: metav1.ObjectMeta{
			Name:              name,
			CreationTimestamp: metav1.NewTime(time.Unix(s.now, 0)),
			ResourceVersion:   s.nextRV(),
		},
		Spec: v3.IPPoolSpec{CIDR: cidr, Disabled: disabled, BlockSize: blockSize},
	}
}

func (s *c39Store) setDisabled(name string, d bool) {
	p := s.pools[name].DeepCopy()
	p.Spec.Disabled = d
	p.ResourceVersion = s.nextRV()
	s.pools[name] = p
}

func (s *c39Store) requestDelete(name string) {
	p := s.pools[name]
	if p.DeletionTimestamp == nil {
		s.allocAtDelete[name] = c39Allocatable(p) && c39CondStatus(p) == string(metav1.ConditionTrue)
	}
	if len(p.Finalizers) == 0 {
		s.vanish(name, "deleted by the user with no finalizer present")
		return
	}
	if p.DeletionTimestamp == nil {
		p = p.DeepCopy()
		ts := metav1.NewTime(time.Unix(s.now, 0))
		p.DeletionTimestamp = &ts
		p.ResourceVersion = s.nextRV()
		s.pools[name] = p
	}
}

func (s *c39Store) syncCaches(pools, blocks cache.Indexer) error {
	pl := make([]any, 0, len(s.pools))
	for _, n := range c39SortedKeys(s.pools) {
		pl = append(pl, s.pools[n].DeepCopy())
	}
	if err := pools.Replace(pl, ""); err != nil {
		return err
	}
	bl := make([]any, 0, len(s.blocks))
	for _, n := range c39SortedKeys(s.blocks) {
		bl = append(bl, s.blocks[n].DeepCopy())
	}
	return blocks.Replace(bl, "")
}

func (s *c39Store) describe() string {
	var sb strings.Builder
	for _, n := range c39SortedKeys(s.pools) {
		p := s.pools[n]
		fmt.Fprintf(&sb, "  pool %s cidr=%s created=%d disabled=%v deleting=%v cond=%q finalizers=%v allocatable=%v\n",
			n, p.Spec.CIDR, p.CreationTimestamp.Unix(), p.Spec.Disabled, p.DeletionTimestamp != nil, c39CondStatus(p), p.Finalizers, c39Allocatable(p))
	}
	for _, n := range c39SortedKeys(s.blocks) {
		fmt.Fprintf(&sb, "  block %s\n", s.blocks[n].Spec.CIDR)
	}
	return sb.String()
}

type c39Env struct {
	s      *c39Store
	c      *IPPoolController
	pools  cache.Indexer
	blocks cache.Indexer
	ipam   *c39IPAM
	// runPlan, when set, makes the next judged reconcile happen inside a freshly started
	// controller's real Run() loop (a kube-controllers restart) instead of a direct call.
	runPlan *c39RunPlan
}

// c39RunPlan describes how the two informer caches of a restarted controller become synced:
// 0 = already synced when Run() starts, k>0 = the cache completes its initial LIST at the k-th time
// somebody asks HasSynced (sync progress is tied to poll count, not to wall-clock time).
type c39RunPlan struct {
	PoolsSyncAt  int
	BlocksSyncAt int
}

// c39LazyInformer is an informer whose HasSynced is under the harness's control.
type c39LazyInformer struct {
	cache.SharedIndexInformer
	indexer cache.Indexer
	syncAt  int
	calls   int
	synced  bool
	fill    func(cache.Indexer)
}

func (f *c39LazyInformer) GetIndexer() cache.Indexer { return f.indexer }
func (f *c39LazyInformer) GetStore() cache.Store     { return f.indexer }
func (f *c39LazyInformer) HasSynced() bool {
	if f.synced {
		return true
	}
	f.calls++
	if f.calls >= f.syncAt {
		f.fill(f.indexer)
		f.synced = true
	}
	return f.synced
}

// c39Queue wraps the real work queue: it reports every finished item and never re-queues.
type c39Queue struct {
	workqueue.TypedRateLimitingInterface[string]
	done     chan struct{}
	requeues int
}

func (q *c39Queue) Done(item string) {
	q.TypedRateLimitingInterface.Done(item)
	select {
	case q.done <- struct{}{}:
	default:
	}
}
func (q *c39Queue) AddRateLimited(item string) { q.requeues++ }

// runRestarted starts a fresh controller through the real Run(), lets it do its start-of-day
// reconcile and stops it again.  Returns a HARNESS-GAP description when Run() could not be driven.
func (e *c39Env) runRestarted(plan *c39RunPlan) (gap string) {
	s := e.s
	mk := func(syncAt int, fill func(cache.Indexer)) *c39LazyInformer {
		inf := &c39LazyInformer{indexer: cache.NewIndexer(cache.MetaNamespaceKeyFunc, cache.Indexers{}), syncAt: syncAt, fill: fill}
		if syncAt == 0 {
			fill(inf.indexer)
			inf.synced = true
		}
		return inf
	}
	// The fills run either here (before Run starts) or in Run's own goroutine while this goroutine
	// is blocked on the barrier below; the store is never touched concurrently.
	pools := mk(plan.PoolsSyncAt, func(idx cache.Indexer) {
		for _, n := range c39SortedKeys(s.pools) {
			_ = idx.Add(s.pools[n].DeepCopy())
		}
	})
	blocks := mk(plan.BlocksSyncAt, func(idx cache.Indexer) {
		for _, n := range c39SortedKeys(s.blocks) {
			_ = idx.Add(s.blocks[n].DeepCopy())
		}
	})
	q := &c39Queue{
		TypedRateLimitingInterface: workqueue.NewTypedRateLimitingQueue(workqueue.DefaultTypedControllerRateLimiter[string]()),
		done:                       make(chan struct{}, 8),
	}
	c := &IPPoolController{ctx: context.Background(), cli: e.c.cli, poolInformer: pools, blockInformer: blocks, ipam: e.ipam, queue: q}
	stopCh := make(chan struct{})
	finished := make(chan struct{})
	go func() {
		defer close(finished)
		c.Run(stopCh)
	}()
	select {
	case <-q.done:
	case <-time.After(20 * time.Second):
		gap = "the restarted controller did not finish its start-of-day reconcile within 20s"
	}
	close(stopCh)
	select {
	case <-finished:
	case <-time.After(20 * time.Second):
		gap += " Run() did not return within 20s of stop"
	}
	if q.requeues > 0 && gap == "" {
		gap = fmt.Sprintf("start-of-day reconcile failed and asked for %d retries", q.requeues)
	}
	return gap
}

func c39NewEnv() *c39Env {
	s := &c39Store{pools: map[string]*v3.IPPool{}, blocks: map[string]*v3.IPAMBlock{}, allocAtDelete: map[string]bool{}, now: 1000}
	cli := fake.NewClientset()
	cli.PrependReactor("*", "ippools", s.react)
	pi := cache.NewIndexer(cache.MetaNamespaceKeyFunc, cache.Indexers{})
	bi := cache.NewIndexer(cache.MetaNamespaceKeyFunc, cache.Indexers{})
	im := &c39IPAM{}
	c := &IPPoolController{
		ctx:           context.Background(),
		cli:           cli,
		poolInformer:  &c39Informer{indexer: pi},
		blockInformer: &c39Informer{indexer: bi},
		ipam:          im,
	}
	return &c39Env{s: s, c: c, pools: pi, blocks: bi, ipam: im}
}

type c39Fataler interface {
	Fatalf(format string, args ...any)
}

// reconcileAndCheck syncs the caches, runs the real reconcile and evaluates the four clauses.
// It returns the classes of interesting situations the reconcile went through.
func (e *c39Env) reconcileAndCheck(t c39Fataler, hist *[]string) []string {
	return e.reconcileWithFaults(t, hist, nil)
}

// reconcileWithFaults: when faults are given, a first pass runs with those writes failing once; its
// result is not judged (except clause 4, which is about irreversible deletions).  The caches are
// then re-synced and the fault-free retry is judged against the state before the faulty pass.
func (e *c39Env) reconcileWithFaults(t c39Fataler, hist *[]string, faults map[string]string) []string {
	s := e.s
	if err := s.syncCaches(e.pools, e.blocks); err != nil {
		t.Fatalf("HARNESS-GAP: cache sync: %v", err)
	}
	// Pre-state.
	before := s.describe()
	wasAlloc := map[string]bool{}
	preTerminating := map[string]bool{}
	for n, p := range s.pools {
		if c39CondStatus(p) == string(metav1.ConditionTrue) && c39Allocatable(p) {
			wasAlloc[n] = true
		}
		if p.DeletionTimestamp != nil {
			preTerminating[n] = true
		}
	}
	var classes []string
	// Classify the situation before the reconcile.
	for _, n := range c39SortedKeys(s.pools) {
		p := s.pools[n]
		for _, m := range c39SortedKeys(s.pools) {
			q := s.pools[m]
			if m == n || !c39Overlap(p.Spec.CIDR, q.Spec.CIDR) {
				continue
			}
			if wasAlloc[n] && c39CondStatus(q) == "" && !q.Spec.Disabled && q.DeletionTimestamp == nil {
				classes = append(classes, "new-pool-overlaps-allocatable")
				if q.CreationTimestamp.Unix() <= p.CreationTimestamp.Unix() && m < n {
					classes = append(classes, "new-pool-sorts-before-allocatable-by-time-and-name")
				}
			}
			if preTerminating[n] && !q.Spec.Disabled && q.DeletionTimestamp == nil {
				classes = append(classes, "terminating-overlaps-enabled")
			}
			if c39CondStatus(p) == "" && c39CondStatus(q) == "" && m < n && !p.Spec.Disabled && !q.Spec.Disabled {
				classes = append(classes, "two-new-pools-overlap")
			}
		}
		if preTerminating[n] && len(s.blocksIn(p.Spec.CIDR)) > 0 && hasFinalizer(p) {
			classes = append(classes, "terminating-with-blocks")
		}
		if preTerminating[n] && len(s.blocksIn(p.Spec.CIDR)) == 0 && hasFinalizer(p) {
			classes = append(classes, "terminating-no-blocks")
		}
	}

	afterFaulty := ""
	if len(faults) > 0 {
		s.faults, s.faultsHit = faults, nil
		ferr := e.c.reconcile()
		s.faults = nil
		*hist = append(*hist, fmt.Sprintf("R!%v", s.faultsHit))
		afterFaulty = "after the pass with failed writes " + fmt.Sprint(s.faultsHit) + " (returned: " + fmt.Sprint(ferr) + "):\n" + s.describe()
		if len(s.faultsHit) == 0 && ferr != nil {
			t.Fatalf("HARNESS-GAP: reconcile returned an error although no injected fault fired: %v", ferr)
		}
		if len(s.faultsHit) > 0 && ferr == nil {
			classes = append(classes, "write-failure-swallowed")
		}
		for _, h := range s.faultsHit {
			if strings.HasPrefix(h, "status:") {
				classes = append(classes, "status-write-failed-then-retry")
				if preTerminating[strings.TrimSuffix(strings.TrimSuffix(strings.TrimPrefix(h, "status:"), "=conflict"), "=error")] {
					classes = append(classes, "terminating-status-write-failed")
				}
			} else {
				classes = append(classes, "finalizer-write-failed-then-retry")
			}
		}
		if len(s.clause4) > 0 {
			t.Fatalf("clause 4 violated: %s\nhistory: %s\nbefore reconcile:\n%s%s", strings.Join(s.clause4, "; "), strings.Join(*hist, " "), before, afterFaulty)
		}
		if err := s.syncCaches(e.pools, e.blocks); err != nil {
			t.Fatalf("HARNESS-GAP: cache sync: %v", err)
		}
	}
	var err error
	if e.runPlan != nil {
		plan := e.runPlan
		e.runPlan = nil
		*hist = append(*hist, fmt.Sprintf("RESTART(poolsSyncAt=%d,blocksSyncAt=%d)", plan.PoolsSyncAt, plan.BlocksSyncAt))
		classes = append(classes, "restart-via-run")
		switch {
		case plan.PoolsSyncAt < plan.BlocksSyncAt:
			classes = append(classes, "restart-pool-cache-synced-first")
		case plan.PoolsSyncAt > plan.BlocksSyncAt:
			classes = append(classes, "restart-block-cache-synced-first")
		}
		for n := range preTerminating {
			if p := s.pools[n]; p != nil && hasFinalizer(p) && len(s.blocksIn(p.Spec.CIDR)) > 0 {
				classes = append(classes, "restart-while-terminating-pool-holds-blocks")
			}
		}
		if gap := e.runRestarted(plan); gap != "" {
			if len(s.clause4) == 0 {
				t.Fatalf("HARNESS-GAP: %s\nhistory: %s\nstate:\n%s", gap, strings.Join(*hist, " "), s.describe())
			}
		}
	} else {
		err = e.c.reconcile()
		*hist = append(*hist, "R")
	}
	after := afterFaulty + "after reconcile:\n" + s.describe()
	fail := func(format string, args ...any) {
		t.Fatalf("%s\nhistory: %s\nbefore reconcile:\n%s%s", fmt.Sprintf(format, args...), strings.Join(*hist, " "), before, after)
	}
	if err != nil {
		fail("HARNESS-GAP: reconcile on a synced cache returned an error (oracle needs a completed reconcile): %v", err)
	}
	if len(s.clause4) > 0 {
		fail("clause 4 violated: %s", strings.Join(s.clause4, "; "))
	}
	names := c39SortedKeys(s.pools)
	// Clause 1: allocatable pools pairwise disjoint.
	for i, n := range names {
		for _, m := range names[i+1:] {
			p, q := s.pools[n], s.pools[m]
			if c39Allocatable(p) && c39Allocatable(q) && c39Overlap(p.Spec.CIDR, q.Spec.CIDR) {
				fail("clause 1 violated: allocatable pools %s (%s) and %s (%s) overlap", n, p.Spec.CIDR, m, q.Spec.CIDR)
			}
		}
	}
	// Clause 2: no displacement.
	for _, n := range c39SortedKeys(wasAlloc) {
		p, ok := s.pools[n]
		if !ok {
			fail("clause 2 violated: pool %s was allocatable (enabled, not deleting) before the reconcile and no longer exists", n)
		}
		if !c39Allocatable(p) || c39CondStatus(p) != string(metav1.ConditionTrue) {
			fail("clause 2 violated: pool %s (%s) was allocatable (enabled, not deleting) before the reconcile and is not allocatable afterwards", n, p.Spec.CIDR)
		}
	}
	// Clause 3: terminating pools mask overlapping pools.
	for _, n := range names {
		p := s.pools[n]
		if p.DeletionTimestamp == nil {
			continue
		}
		for _, m := range names {
			q := s.pools[m]
			if m != n && c39Overlap(p.Spec.CIDR, q.Spec.CIDR) && c39Allocatable(q) {
				fail("clause 3 violated: terminating pool %s (%s) still exists but overlapping pool %s (%s) is allocatable", n, p.Spec.CIDR, m, q.Spec.CIDR)
			}
		}
	}
	// Every allocatable pool must have been given an explicit verdict (the statement speaks about
	// the state after a reconcile; a pool left without a condition would be allocatable for IPAM by
	// default, which the clauses above already cover; this only feeds the histogram).
	nAlloc := 0
	for _, n := range names {
		if c39Allocatable(s.pools[n]) {
			nAlloc++
		}
	}
	if nAlloc > 0 {
		classes = append(classes, "some-pool-allocatable")
	}
	for n := range preTerminating {
		if _, ok := s.pools[n]; !ok {
			classes = append(classes, "terminating-pool-finalized")
		}
	}
	return classes
}

func c39BlockCIDR(pool *v3.IPPool, idx int) string {
	p := c39Prefix(pool.Spec.CIDR)
	bs := pool.Spec.BlockSize
	if bs == 0 {
		if p.Addr().Is4() {
			bs = 26
		} else {
			bs = 122
		}
	}
	total := 32
	if p.Addr().Is6() {
		total = 128
	}
	hostBits := total - bs
	// Number of blocks in the pool, capped.
	nb := 1
	if d := bs - p.Bits(); d > 0 {
		if d > 2 {
			d = 2
		}
		nb = 1 << d
	}
	idx %= nb
	b := p.Addr().AsSlice()
	off := idx << hostBits // idx<=3, hostBits<=12 (v4 /20) or <=12 (v6 /116): fits in the low 2 bytes
	b[len(b)-1] |= byte(off)
	b[len(b)-2] |= byte(off >> 8)
	a, _ := netip.AddrFromSlice(b)
	return netip.PrefixFrom(a, bs).String()
}

func c39Run(t *rapid.T, rec *ev.Recorder) {
	e := c39NewEnv()
	s := e.s
	var hist []string
	classSet := map[string]bool{}
	addClasses := func(cs []string) {
		for _, c := range cs {
			classSet[c] = true
		}
	}
	nameGen := rapid.SampledFrom([]string{"p0", "p1", "p2", "p3", "p4", "p5"})
	existing := func(t *rapid.T, label string, filter func(*v3.IPPool) bool) *v3.IPPool {
		var names []string
		for _, n := range c39SortedKeys(s.pools) {
			if filter == nil || filter(s.pools[n]) {
				names = append(names, n)
			}
		}
		if len(names) == 0 {
			return nil
		}
		return s.pools[rapid.SampledFrom(names).Draw(t, label)]
	}
	nOps := rapid.IntRange(4, ev.Scale(36, 70)).Draw(t, "nOps")
	reconciles := 0
	for i := 0; i < nOps; i++ {
		op := rapid.SampledFrom([]string{
			"create", "create", "create", "create", "disable", "enable", "delete", "delete",
			"blockCreate", "blockCreate", "blockCreate", "blockDelete", "reconcile", "reconcile", "reconcile", "reconcile", "restart", "tick",
		}).Draw(t, "op")
		switch op {
		case "create":
			name := nameGen.Draw(t, "name")
			if _, ok := s.pools[name]; ok {
				continue
			}
			cidr := rapid.SampledFrom(c39CIDRs).Draw(t, "cidr")
			if rapid.IntRange(0, 2).Draw(t, "narrowFamily") > 0 {
				// Two out of three pools come from the first six entries (one nested v4 chain).
				cidr = c39CIDRs[rapid.IntRange(0, 5).Draw(t, "cidrIdx")]
			}
			disabled := rapid.IntRange(0, 9).Draw(t, "createDisabled") == 0
			bs := 0
			if c39Prefix(cidr).Addr().Is4() && c39Prefix(cidr).Bits() <= 24 && rapid.Bool().Draw(t, "customBlockSize") {
				bs = rapid.SampledFrom([]int{24, 26, 28}).Draw(t, "blockSize")
			}
			s.now += int64(rapid.SampledFrom([]int{0, 0, 1, 5}).Draw(t, "dt"))
			s.create(name, cidr, disabled, bs)
			hist = append(hist, fmt.Sprintf("create(%s,%s,dis=%v,t=%d)", name, cidr, disabled, s.now))
		case "disable":
			p := existing(t, "disablePool", func(p *v3.IPPool) bool { return !p.Spec.Disabled })
			if p == nil {
				continue
			}
			if p.DeletionTimestamp != nil {
				classSet["disable-terminating"] = true
			}
			s.setDisabled(p.Name, true)
			hist = append(hist, fmt.Sprintf("disable(%s)", p.Name))
		case "enable":
			p := existing(t, "enablePool", func(p *v3.IPPool) bool { return p.Spec.Disabled })
			if p == nil {
				continue
			}
			s.setDisabled(p.Name, false)
			hist = append(hist, fmt.Sprintf("enable(%s)", p.Name))
		case "delete":
			p := existing(t, "deletePool", func(p *v3.IPPool) bool { return p.DeletionTimestamp == nil })
			if p == nil {
				continue
			}
			if p.Spec.Disabled && len(p.Finalizers) > 0 {
				// Becomes terminating while administratively disabled.
				classSet["delete-disabled-with-finalizer"] = true
			}
			s.now += int64(rapid.IntRange(0, 1).Draw(t, "dt"))
			s.requestDelete(p.Name)
			hist = append(hist, fmt.Sprintf("delete(%s)", p.Name))
			if len(s.clause4) > 0 {
				t.Fatalf("clause 4 violated: %s\nhistory: %s\nstate:\n%s", strings.Join(s.clause4, "; "), strings.Join(hist, " "), s.describe())
			}
		case "blockCreate":
			// IPAM only creates blocks inside pools it may allocate from.
			p := existing(t, "blockPool", func(p *v3.IPPool) bool {
				return c39Allocatable(p) && c39CondStatus(p) == string(metav1.ConditionTrue)
			})
			if p == nil {
				continue
			}
			cidr := c39BlockCIDR(p, rapid.IntRange(0, 3).Draw(t, "blockIdx"))
			name := strings.NewReplacer(".", "-", ":", "-", "/", "-").Replace(cidr)
			if _, ok := s.blocks[name]; ok {
				continue
			}
			s.blocks[name] = &v3.IPAMBlock{ObjectMeta: metav1.ObjectMeta{Name: name, ResourceVersion: s.nextRV()}, Spec: v3.IPAMBlockSpec{CIDR: cidr}}
			hist = append(hist, fmt.Sprintf("block+(%s)", cidr))
		case "blockDelete":
			names := c39SortedKeys(s.blocks)
			if len(names) == 0 {
				continue
			}
			n := rapid.SampledFrom(names).Draw(t, "block")
			hist = append(hist, fmt.Sprintf("block-(%s)", s.blocks[n].Spec.CIDR))
			delete(s.blocks, n)
		case "tick":
			s.now += int64(rapid.IntRange(1, 100).Draw(t, "dt"))
		case "reconcile":
			var faults map[string]string
			if rapid.IntRange(0, 2).Draw(t, "injectWriteFailures") == 0 {
				faults = map[string]string{}
				for _, n := range c39SortedKeys(s.pools) {
					kind := rapid.SampledFrom([]string{"conflict", "error"}).Draw(t, "failureKind")
					switch rapid.IntRange(0, 5).Draw(t, "failWrite:"+n) {
					case 0, 1:
						faults["status:"+n] = kind
					case 2:
						faults["update:"+n] = kind
					case 3:
						faults["status:"+n] = kind
						faults["update:"+n] = kind
					}
				}
			}
			addClasses(e.reconcileWithFaults(t, &hist, faults))
			reconciles++
		case "restart":
			// kube-controllers restarts: a fresh controller goes through the real Run() with a drawn
			// relative order in which its two informer caches complete their initial LIST.
			plan := &c39RunPlan{}
			switch rapid.SampledFrom([]string{"poolsFirst", "poolsFirst", "blocksFirst", "together"}).Draw(t, "cacheSyncOrder") {
			case "poolsFirst":
				plan.BlocksSyncAt = 1
				if rapid.IntRange(0, 11).Draw(t, "blockListSlow") == 0 {
					plan.BlocksSyncAt = 2 // one more 100ms poll period of WaitForCacheSync
				}
			case "blocksFirst":
				plan.PoolsSyncAt = 1
			}
			e.runPlan = plan
			addClasses(e.reconcileWithFaults(t, &hist, nil))
			reconciles++
		}
	}
	addClasses(e.reconcileAndCheck(t, &hist))
	// A second reconcile with no intervening change: still must satisfy all clauses.
	addClasses(e.reconcileAndCheck(t, &hist))

	var cl []string
	for _, c := range c39SortedKeys(classSet) {
		cl = append(cl, c)
	}
	nontrivial := classSet["new-pool-overlaps-allocatable"] || classSet["terminating-overlaps-enabled"] ||
		classSet["terminating-with-blocks"] || classSet["two-new-pools-overlap"]
	// Shape: op kinds only.
	var shape []string
	for _, h := range hist {
		if i := strings.IndexByte(h, '('); i >= 0 {
			h = h[:i]
		}
		shape = append(shape, h)
	}
	key := strings.Join(shape, ",") + "|" + strings.Join(cl, ",")
	rec.SizedCase(nontrivial, key, len(hist), func() any {
		return map[string]any{"history": strings.Join(hist, " "), "classes": cl}
	}, cl...)
}

func TestVerifC39PoolOverlap(t *testing.T) {
	ev.Quiet()
	rec := ev.New("C39", "ippool",
		"random histories of pool create (nested CIDR family, equal-second creation times), disable/enable, delete, IPAM block create/delete and reconcile on a synced cache; non-trivial when a new pool overlaps an allocatable one, two new pools overlap, or a terminating pool overlaps an enabled pool / holds blocks; distinct by op-kind sequence + classes hit",
		"the miniature API server in the harness (resourceVersion conflicts, status subresource, finalizer-gated deletion, injected one-shot write failures) stands in for the Kubernetes API server",
		"a reconcile pass in which an injected write failure fired is not judged itself (except that no pool may vanish against clause 4); the immediately following fault-free retry is judged against the state before the faulty pass",
		"allocatable is what clientv3.filterIPPool lets IPAM use: not deleting, not Spec.Disabled, no Allocatable=False condition",
		"IPAM blocks are only created inside pools that are allocatable at that moment; they may outlive the pool",
		"pools carry no finalizers other than the controller's own",
		"a restart step runs a fresh controller through the real Run(): HasSynced of each informer is under the harness's control (cache complete at the k-th HasSynced poll), the work queue is the real one wrapped to signal a finished item; the start-of-day reconcile is judged like any other reconcile; bounded waits map to HARNESS-GAP",
	)
	defer rec.Write()
	rapid.Check(t, func(t *rapid.T) { c39Run(t, rec) })
}

// TestVerifC39RegressionDisabledTerminating is the regression test for the fixed finding
// c39-disabled-terminating-pool-unmasks (repo commit 30b1a8c): a terminating pool that is also
// spec.disabled must keep masking overlapping pools while it exists.
func TestVerifC39RegressionDisabledTerminating(t *testing.T) {
	ev.Quiet()
	e := c39NewEnv()
	s := e.s
	var hist []string
	s.create("p0", "10.0.0.0/24", false, 0)
	e.reconcileAndCheck(t, &hist)
	s.blocks["b"] = &v3.IPAMBlock{ObjectMeta: metav1.ObjectMeta{Name: "b"}, Spec: v3.IPAMBlockSpec{CIDR: "10.0.0.0/26"}}
	s.now++
	s.create("p1", "10.0.0.0/16", false, 0)
	e.reconcileAndCheck(t, &hist)
	s.requestDelete("p0")
	e.reconcileAndCheck(t, &hist)
	s.setDisabled("p0", true)
	hist = append(hist, "disable(p0)")
	e.reconcileAndCheck(t, &hist)
	if _, ok := s.pools["p0"]; !ok {
		t.Fatalf("HARNESS-GAP: scenario no longer keeps p0 terminating")
	}
	// Second variant: disabled first, deleted before the controller reconciles.
	e = c39NewEnv()
	s = e.s
	hist = nil
	s.create("p0", "10.0.0.0/24", false, 0)
	e.reconcileAndCheck(t, &hist)
	s.blocks["b"] = &v3.IPAMBlock{ObjectMeta: metav1.ObjectMeta{Name: "b"}, Spec: v3.IPAMBlockSpec{CIDR: "10.0.0.0/26"}}
	s.now++
	s.create("p1", "10.0.0.0/16", false, 0)
	e.reconcileAndCheck(t, &hist)
	s.setDisabled("p0", true)
	s.requestDelete("p0")
	hist = append(hist, "disable(p0)", "delete(p0)")
	e.reconcileAndCheck(t, &hist)
	e.reconcileAndCheck(t, &hist)
}
