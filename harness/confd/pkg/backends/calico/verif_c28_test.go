package calico

// C28 — exactly one component programs each IP pool's cluster routes.
//
// Both halves of the decision are run together on the same inputs:
//   * Felix: the FelixConfiguration value goes through config.Config.UpdateFrom; the pool set
//     goes through calc.EncapsulationCalculator (Felix start-up path) and
//     calc.EncapsulationResolver (calculation-graph path); Felix programs a pool's cluster
//     routes under the conditions felix/dataplane/driver.go + int_dataplane.go apply to those
//     values (VXLAN: Encapsulation.VXLANEnabled[V6]; IPIP: Encapsulation.IPIPEnabled &&
//     ProgramIPIPClusterRoutes(); unencapsulated: ProgramNoEncapClusterRoutes() &&
//     Encapsulation.NoEncapNeeded).
//   * BIRD: the BGPConfiguration value and the pool set go through confd's real
//     processIPPools; the rendered calico_kernel_programming statements are evaluated by a tiny
//     BIRD-filter evaluator on a route inside each pool (first matching statement decides,
//     final "accept;" as in bird_ipam.cfg.template).
// Oracle (statement + design/cluster-route-programming/DESIGN.md §1): for the four supported
// pairings — after replacing absent/unrecognised values by each side's documented default —
// VXLAN pools are programmed by Felix and not BIRD, IPIP and unencapsulated pools by exactly
// the side the pairing assigns.  Nothing is asserted for unsupported pairings.

import (
	"encoding/json"
	"fmt"
	"net"
	"regexp"
	"sort"
	"strings"
	"testing"

	v3 "github.com/projectcalico/api/pkg/apis/projectcalico/v3"
	"pgregory.net/rapid"

	"github.com/projectcalico/calico/confd/pkg/backends/types"
	"github.com/projectcalico/calico/felix/calc"
	felixconfig "github.com/projectcalico/calico/felix/config"
	"github.com/projectcalico/calico/libcalico-go/lib/backend/api"
	"github.com/projectcalico/calico/libcalico-go/lib/backend/encap"
	"github.com/projectcalico/calico/libcalico-go/lib/backend/model"
	cnet "github.com/projectcalico/calico/libcalico-go/lib/net"
	"github.com/projectcalico/calico/verifkit/ev"
)

// ---- the two settings ----

type c28Setting struct {
	Kind  string // "value", "absent", "no-object" (BGP only: no default BGPConfiguration at all)
	Value string
}

func (s c28Setting) String() string {
	if s.Kind == "value" {
		return fmt.Sprintf("%q", s.Value)
	}
	return s.Kind
}

var c28Values = []string{"Enabled", "Disabled", "EnabledIPIPOnly", "EnabledNoEncapOnly"}

// Values neither component recognises (what a newer API version might add).  Case variants of
// the four values are not used: both CRDs restrict the field to the exact four spellings.
var c28Junk = []string{"Auto", "EnabledVXLANOnly", "junk-value"}

func c28FelixSettings() []c28Setting {
	out := []c28Setting{{Kind: "absent"}}
	for _, v := range c28Values {
		out = append(out, c28Setting{"value", v})
	}
	for _, v := range c28Junk {
		out = append(out, c28Setting{"value", v})
	}
	return out
}

func c28BGPSettings() []c28Setting {
	return append(c28FelixSettings(), c28Setting{Kind: "no-object"})
}

// c28Effective: the value a side acts on, per the statement ("absent or unrecognised values,
// which both treat as their defaults") and the documented defaults.
func c28Effective(s c28Setting, def string) string {
	if s.Kind == "value" {
		for _, v := range c28Values {
			if v == s.Value {
				return v
			}
		}
	}
	return def
}

const (
	c28FelixDefault = "EnabledIPIPOnly"
	c28BGPDefault   = "EnabledNoEncapOnly"
)

// supported pairings (design doc §1): felix value -> bgp value
var c28Supported = map[string]string{
	"EnabledIPIPOnly":    "EnabledNoEncapOnly",
	"Enabled":            "Disabled",
	"Disabled":           "Enabled",
	"EnabledNoEncapOnly": "EnabledIPIPOnly",
}

// ---- pools ----

type c28Pool struct {
	CIDR             string
	Mode             string // vxlan-always, vxlan-cross, ipip-always, ipip-cross, none
	DisableBGPExport bool
	// Flags that must not change who programs the pool's cluster routes.  Disabled only stops
	// new IPAM assignments ("Calico IPAM will not assign addresses from this pool"): existing
	// blocks keep their workloads and still need routes, and nothing on Felix's side
	// (EncapsulationCalculator/Resolver, L3RouteResolver, the route managers) looks at it.
	// LoadBalancer-only pools are not generated: Felix deliberately gives them no route type.
	Disabled     bool
	NATOutgoing  bool
	Manual       bool   // assignmentMode: Manual
	NodeSelector string // v3 only
	Uses         string // "", "workload", "tunnel", "both"
}

var c28Modes = []string{"vxlan-always", "vxlan-cross", "ipip-always", "ipip-cross", "none"}

func (p c28Pool) class() string {
	switch {
	case strings.HasPrefix(p.Mode, "vxlan"):
		return "vxlan"
	case strings.HasPrefix(p.Mode, "ipip"):
		return "ipip"
	}
	return "none"
}

func (p c28Pool) v6() bool { return strings.Contains(p.CIDR, ":") }

func (p c28Pool) model() *model.IPPool {
	mp := &model.IPPool{CIDR: cnet.MustParseCIDR(p.CIDR), DisableBGPExport: p.DisableBGPExport,
		Disabled: p.Disabled, Masquerade: p.NATOutgoing, IPAM: true, AssignmentMode: v3.Automatic}
	if p.Manual {
		mp.AssignmentMode = v3.Manual
	}
	mp.AllowedUses = p.uses()
	// The v3->v1 conversion always fills in both modes ("never" when disabled).
	mp.IPIPMode, mp.VXLANMode = encap.Never, encap.Never
	switch p.Mode {
	case "vxlan-always":
		mp.VXLANMode = encap.Always
	case "vxlan-cross":
		mp.VXLANMode = encap.CrossSubnet
	case "ipip-always":
		mp.IPIPMode = encap.Always
	case "ipip-cross":
		mp.IPIPMode = encap.CrossSubnet
	}
	return mp
}

func (p c28Pool) uses() []v3.IPPoolAllowedUse {
	switch p.Uses {
	case "workload":
		return []v3.IPPoolAllowedUse{v3.IPPoolAllowedUseWorkload}
	case "tunnel":
		return []v3.IPPoolAllowedUse{v3.IPPoolAllowedUseTunnel}
	case "both":
		return []v3.IPPoolAllowedUse{v3.IPPoolAllowedUseWorkload, v3.IPPoolAllowedUseTunnel}
	}
	return nil
}

func (p c28Pool) apiPool(i int) *v3.IPPool {
	ap := v3.NewIPPool()
	ap.Name = fmt.Sprintf("pool-%d", i)
	ap.Spec.CIDR = p.CIDR
	ap.Spec.DisableBGPExport = p.DisableBGPExport
	ap.Spec.Disabled = p.Disabled
	ap.Spec.NATOutgoing = p.NATOutgoing
	ap.Spec.NodeSelector = p.NodeSelector
	ap.Spec.AllowedUses = p.uses()
	if p.Manual {
		m := v3.Manual
		ap.Spec.AssignmentMode = &m
	}
	ap.Spec.IPIPMode, ap.Spec.VXLANMode = v3.IPIPModeNever, v3.VXLANModeNever
	switch p.Mode {
	case "vxlan-always":
		ap.Spec.VXLANMode = v3.VXLANModeAlways
	case "vxlan-cross":
		ap.Spec.VXLANMode = v3.VXLANModeCrossSubnet
	case "ipip-always":
		ap.Spec.IPIPMode = v3.IPIPModeAlways
	case "ipip-cross":
		ap.Spec.IPIPMode = v3.IPIPModeCrossSubnet
	}
	return ap
}

// ---- Felix side ----

type c28EncapSink struct{ got []felixconfig.Encapsulation }

func (s *c28EncapSink) OnEncapUpdate(e felixconfig.Encapsulation) { s.got = append(s.got, e) }

type c28Felix struct {
	cfg *felixconfig.Config
	enc felixconfig.Encapsulation
}

// c28FelixSide returns Felix's view, or a description of an internal disagreement between its
// start-up path and its calculation-graph path (both must see the same Encapsulation).
// c28Layer: one configuration source that sets ProgramClusterRoutes.
type c28Layer struct {
	Source felixconfig.Source
	Value  string
}

// Felix's configuration sources that can carry the setting, lowest priority first (the order
// the Felix daemon loads them in is env, file, then the datastore ones; priority is fixed).
var c28Sources = []felixconfig.Source{felixconfig.DatastoreGlobal, felixconfig.DatastorePerSelector,
	felixconfig.DatastorePerHost, felixconfig.ConfigFile, felixconfig.EnvironmentVariable}

// c28TopSetting: the setting Felix must act on = the one from the highest-priority source that
// sets the key (C27's rule); no layer = absent.
func c28TopSetting(layers []c28Layer) c28Setting {
	best := -1
	var out c28Setting
	for _, l := range layers {
		for i, s := range c28Sources {
			if s == l.Source && i > best {
				best, out = i, c28Setting{"value", l.Value}
			}
		}
	}
	if best < 0 {
		return c28Setting{Kind: "absent"}
	}
	return out
}

func c28FelixSide(layers []c28Layer, pools []c28Pool) (c28Felix, string) {
	cfg := felixconfig.New()
	// Apply in the daemon's order: local sources first, then global, per-selector, per-host.
	for _, src := range []felixconfig.Source{felixconfig.EnvironmentVariable, felixconfig.ConfigFile,
		felixconfig.DatastoreGlobal, felixconfig.DatastorePerSelector, felixconfig.DatastorePerHost} {
		for _, l := range layers {
			if l.Source != src {
				continue
			}
			if _, err := cfg.UpdateFrom(map[string]string{"ProgramClusterRoutes": l.Value}, src); err != nil {
				return c28Felix{}, fmt.Sprintf("Felix rejected ProgramClusterRoutes=%q outright: %v", l.Value, err)
			}
		}
	}
	// start-up path: daemon.go lists the v3 IPPools and feeds them to the calculator
	list := &model.KVPairList{}
	for i, p := range pools {
		list.KVPairs = append(list.KVPairs, &model.KVPair{Value: p.apiPool(i)})
	}
	ec := calc.NewEncapsulationCalculator(cfg, list)
	enc := felixconfig.Encapsulation{
		IPIPEnabled: ec.IPIPEnabled(), VXLANEnabled: ec.VXLANEnabled(),
		VXLANEnabledV6: ec.VXLANEnabledV6(), NoEncapNeeded: ec.NoEncapNeeded(),
	}
	// calculation-graph path: model pools arrive as syncer updates
	sink := &c28EncapSink{}
	res := calc.NewEncapsulationResolver(cfg, sink)
	for _, p := range pools {
		mp := p.model()
		res.OnPoolUpdate(api.Update{KVPair: model.KVPair{Key: model.IPPoolKey{CIDR: model.PrefixFromIPNet(mp.CIDR)}, Value: mp}, UpdateType: api.UpdateTypeKVNew})
	}
	res.OnStatusUpdate(api.InSync)
	if len(sink.got) == 0 {
		return c28Felix{}, "HARNESS-GAP: EncapsulationResolver produced no Encapsulation after InSync"
	}
	if last := sink.got[len(sink.got)-1]; last != enc {
		return c28Felix{}, fmt.Sprintf("Felix's start-up calculation %+v and its calculation graph %+v disagree about the same pools", enc, last)
	}
	return c28Felix{cfg: cfg, enc: enc}, ""
}

// programs mirrors the conditions under which felix/dataplane/driver.go and
// felix/dataplane/linux/int_dataplane.go (+ ipip_mgr.go) make Felix program a pool's routes.
func (f c28Felix) programs(p c28Pool) bool {
	switch p.class() {
	case "vxlan":
		if p.v6() {
			return f.enc.VXLANEnabledV6
		}
		return f.enc.VXLANEnabled
	case "ipip":
		return f.enc.IPIPEnabled && f.cfg.ProgramIPIPClusterRoutes()
	}
	return f.cfg.ProgramNoEncapClusterRoutes() && f.enc.NoEncapNeeded
}

// ---- BIRD side ----

const c28NodeName = "c28-node"

func c28BirdFilters(setting c28Setting, pools []c28Pool, localSubnetV4 string) (map[int][]string, error) {
	cache := map[string]string{}
	for _, p := range pools {
		js, err := json.Marshal(*p.model())
		if err != nil {
			return nil, err
		}
		ver := 4
		if p.v6() {
			ver = 6
		}
		cache[fmt.Sprintf("/calico/v1/ipam/v%d/pool/%s", ver, strings.Replace(p.CIDR, "/", "-", 1))] = string(js)
	}
	cache[fmt.Sprintf("/calico/bgp/v1/host/%s/network_v4", c28NodeName)] = localSubnetV4
	c := &client{cache: cache, peeringCache: map[string]string{}, configCache: map[int]*bgpConfigCache{}}
	switch setting.Kind {
	case "no-object":
		c.globalBGPConfig = nil
	case "absent":
		c.globalBGPConfig = v3.NewBGPConfiguration()
		c.globalBGPConfig.Name = "default"
	default:
		c.globalBGPConfig = v3.NewBGPConfiguration()
		c.globalBGPConfig.Name = "default"
		v := setting.Value
		c.globalBGPConfig.Spec.ProgramClusterRoutes = &v
	}
	out := map[int][]string{}
	for _, ver := range []int{4, 6} {
		cfg := &types.BirdBGPConfig{NodeName: c28NodeName}
		if err := c.processIPPools(c.getBGPProcessorContext(), cfg, ver); err != nil {
			return nil, err
		}
		out[ver] = cfg.KernelFilterForIPPools
	}
	return out, nil
}

var (
	c28StmtRe  = regexp.MustCompile(`^\s*if \(net ~ (\S+)\) then \{ (.*?)\s*(accept|reject); \}\s*(#.*)?$`)
	c28TunlRe  = regexp.MustCompile(`^krt_tunnel="tunl0";$`)
	c28CrossRe = regexp.MustCompile(`^if \(defined\(bgp_next_hop\)&&\(bgp_next_hop ~ \S+\)\) then krt_tunnel=""; else krt_tunnel="tunl0";$`)
)

// c28BirdAccepts evaluates filter calico_kernel_programming (pool part + the template's final
// "accept;") for a route to `route`.  ok=false: a statement the evaluator does not understand.
func c28BirdAccepts(statements []string, route *net.IPNet) (accept bool, gap string) {
	for _, st := range statements {
		m := c28StmtRe.FindStringSubmatch(st)
		if m == nil {
			return false, "unrecognised kernel-filter statement: " + st
		}
		if extra := m[2]; extra != "" && !c28TunlRe.MatchString(extra) && !c28CrossRe.MatchString(extra) {
			return false, "unrecognised action list in kernel-filter statement: " + st
		}
		_, cidr, err := net.ParseCIDR(m[1])
		if err != nil {
			return false, "bad CIDR in kernel-filter statement: " + st
		}
		// BIRD: prefix ~ prefix is true when the left prefix is the right one or a subnet of it
		ro, _ := route.Mask.Size()
		co, _ := cidr.Mask.Size()
		if cidr.Contains(route.IP) && ro >= co {
			return m[3] == "accept", ""
		}
	}
	return true, "" // template: "accept;" — destination is not in any listed pool
}

// routes to test for a pool: the pool CIDR itself, a block inside it, a single address
func c28Routes(p c28Pool) []*net.IPNet {
	_, cidr, _ := net.ParseCIDR(p.CIDR)
	ones, bits := cidr.Mask.Size()
	out := []*net.IPNet{cidr}
	blk := 26
	if bits == 128 {
		blk = 122
	}
	if blk > ones {
		out = append(out, &net.IPNet{IP: cidr.IP, Mask: net.CIDRMask(blk, bits)})
	}
	last := make(net.IP, len(cidr.IP))
	copy(last, cidr.IP)
	for i := range last {
		last[i] |= ^cidr.Mask[i]
	}
	out = append(out, &net.IPNet{IP: last, Mask: net.CIDRMask(bits, bits)})
	return out
}

// ---- the joint check ----

type c28Outcome struct {
	Supported bool
	Lines     []string // per pool: who programs it
}

func c28Check(layers []c28Layer, bs c28Setting, pools []c28Pool, localSubnet string) (c28Outcome, string) {
	var out c28Outcome
	fs := c28TopSetting(layers)
	felix, bad := c28FelixSide(layers, pools)
	if bad != "" {
		return out, bad
	}
	filters, err := c28BirdFilters(bs, pools, localSubnet)
	if err != nil {
		return out, "HARNESS-GAP: processIPPools failed: " + err.Error()
	}
	return c28Judge(layers, fs, felix, bs, pools, filters)
}

// c28Judge compares Felix's decisions with BIRD's kernel-filter statements (however obtained).
func c28Judge(layers []c28Layer, fs c28Setting, felix c28Felix, bs c28Setting, pools []c28Pool, filters map[int][]string) (c28Outcome, string) {
	var out c28Outcome
	fe, be := c28Effective(fs, c28FelixDefault), c28Effective(bs, c28BGPDefault)
	out.Supported = c28Supported[fe] == be
	describe := func() string {
		return fmt.Sprintf("Felix ProgramClusterRoutes by source %+v => effective %v (acts as %s)  BGPConfiguration.programClusterRoutes=%v (acts as %s)\npools %+v\nFelix: ProgramIPIP=%v ProgramNoEncap=%v Encapsulation=%+v\nBIRD v4 kernel filter:\n%s\nBIRD v6 kernel filter:\n%s",
			layers, fs, fe, bs, be, pools, felix.cfg.ProgramIPIPClusterRoutes(), felix.cfg.ProgramNoEncapClusterRoutes(), felix.enc,
			strings.Join(filters[4], "\n"), strings.Join(filters[6], "\n"))
	}
	for _, p := range pools {
		ver := 4
		if p.v6() {
			ver = 6
		}
		fp := felix.programs(p)
		var bp bool
		for i, r := range c28Routes(p) {
			acc, gap := c28BirdAccepts(filters[ver], r)
			if gap != "" {
				return out, "HARNESS-GAP: " + gap
			}
			if i == 0 {
				bp = acc
			} else if acc != bp {
				return out, fmt.Sprintf("BIRD's kernel filter treats routes inside pool %s differently (%v: %v, pool CIDR: %v)\n%s", p.CIDR, r, acc, bp, describe())
			}
		}
		out.Lines = append(out.Lines, fmt.Sprintf("%s %s felix=%v bird=%v", p.CIDR, p.Mode, fp, bp))
		if !out.Supported {
			continue
		}
		wantFelix := true // VXLAN: always Felix
		switch p.class() {
		case "ipip":
			wantFelix = fe == "Enabled" || fe == "EnabledIPIPOnly"
		case "none":
			wantFelix = fe == "Enabled" || fe == "EnabledNoEncapOnly"
		}
		if fp == bp {
			who := "NEITHER Felix nor BIRD programs"
			if fp {
				who = "BOTH Felix and BIRD program"
			}
			return out, fmt.Sprintf("%s the cluster routes of pool %s (%s)\n%s", who, p.CIDR, p.Mode, describe())
		}
		if fp != wantFelix {
			return out, fmt.Sprintf("pool %s (%s) should be programmed by Felix=%v under this pairing, but Felix=%v BIRD=%v\n%s", p.CIDR, p.Mode, wantFelix, fp, bp, describe())
		}
	}
	return out, ""
}

func c28Fail(t interface {
	Fatalf(string, ...any)
}, msg string) {
	t.Fatalf("%s", msg)
}

func c28WithNodeName(f func()) {
	prev := NodeName
	NodeName = c28NodeName
	defer func() { NodeName = prev }()
	f()
}

// TestVerifC28Exhaustive enumerates every (Felix setting, BGP setting) pair x every pool mode
// x IP version with a single pool, and x the pool set containing every mode at once.
func TestVerifC28Exhaustive(t *testing.T) {
	ev.Quiet()
	rec := ev.New("C28", "pairs",
		"every Felix setting (4 values, absent, 3 unrecognised) x 3 source layerings (alone; per-node above a global Disabled; environment above file and global values) x every BGPConfiguration setting (the same + no BGPConfiguration object) x {each single pool mode x v4/v6 (IPIP is v4-only), plain and with every ownership-neutral flag set (disabled etc.), two pool sets with all modes}; non-trivial = supported pairing (after defaults); distinct = (felix, bgp, pool set)",
		"IPv4 local subnet is known to confd (without it confd emits no IPv4 kernel filter at all, a documented limitation)",
		"Felix's IPv6 support is enabled; the deprecated VXLANEnabled/IpInIpEnabled overrides are unset")
	defer rec.Write()
	var poolSets [][]c28Pool
	for _, m := range c28Modes {
		poolSets = append(poolSets, []c28Pool{{CIDR: "10.65.0.0/16", Mode: m}})
		if !strings.HasPrefix(m, "ipip") {
			poolSets = append(poolSets, []c28Pool{{CIDR: "fd00:65::/64", Mode: m}})
		}
	}
	poolSets = append(poolSets, []c28Pool{
		{CIDR: "10.65.0.0/16", Mode: "vxlan-always"}, {CIDR: "10.66.0.0/16", Mode: "vxlan-cross", DisableBGPExport: true},
		{CIDR: "10.67.0.0/16", Mode: "ipip-always"}, {CIDR: "10.68.0.0/16", Mode: "ipip-cross"},
		{CIDR: "10.69.0.0/16", Mode: "none"}, {CIDR: "192.168.0.0/18", Mode: "none", DisableBGPExport: true},
		{CIDR: "fd00:65::/64", Mode: "vxlan-always"}, {CIDR: "fd00:66::/64", Mode: "vxlan-cross"}, {CIDR: "fd00:67::/64", Mode: "none"},
	})
	// the same classes with every ownership-neutral flag set (a pool being migrated away from:
	// disabled, but its blocks are still live)
	for _, m := range c28Modes {
		poolSets = append(poolSets, []c28Pool{{CIDR: "10.65.0.0/16", Mode: m, Disabled: true, NATOutgoing: true, Manual: true, NodeSelector: "!all()", Uses: "workload"}})
		if !strings.HasPrefix(m, "ipip") {
			poolSets = append(poolSets, []c28Pool{{CIDR: "fd00:65::/64", Mode: m, Disabled: true}})
		}
	}
	poolSets = append(poolSets, []c28Pool{
		{CIDR: "10.65.0.0/16", Mode: "vxlan-always", Disabled: true}, {CIDR: "10.67.0.0/16", Mode: "ipip-always", Disabled: true},
		{CIDR: "10.68.0.0/16", Mode: "ipip-cross"}, {CIDR: "10.69.0.0/16", Mode: "none", Disabled: true}, {CIDR: "10.70.0.0/16", Mode: "none"},
		{CIDR: "fd00:65::/64", Mode: "vxlan-cross", Disabled: true}, {CIDR: "fd00:67::/64", Mode: "none", Disabled: true},
	})
	// How the Felix setting under test reaches Felix: alone in the global FelixConfiguration,
	// or in a higher-priority source above other (valid, non-default) values.
	layerings := []func(v string) []c28Layer{
		func(v string) []c28Layer { return []c28Layer{{felixconfig.DatastoreGlobal, v}} },
		func(v string) []c28Layer {
			return []c28Layer{{felixconfig.DatastorePerHost, v}, {felixconfig.DatastoreGlobal, "Disabled"}}
		},
		func(v string) []c28Layer {
			return []c28Layer{{felixconfig.EnvironmentVariable, v}, {felixconfig.ConfigFile, "EnabledNoEncapOnly"}, {felixconfig.DatastoreGlobal, "Enabled"}}
		},
	}
	n, supported := 0, 0
	c28WithNodeName(func() {
		for _, fs := range c28FelixSettings() {
			for li, mk := range layerings {
				var layers []c28Layer
				if fs.Kind == "value" {
					layers = mk(fs.Value)
				} else if li > 0 {
					continue // absent: no source sets the key
				}
				for _, bs := range c28BGPSettings() {
					for i, pools := range poolSets {
						c28ExhaustiveOne(t, rec, layers, li, fs, bs, i, pools, &n, &supported)
					}
				}
			}
		}
	})
	rec.Extra("exhaustive", true)
	rec.Extra("combinations", n)
	rec.Extra("supported_combinations", supported)
}

func c28ExhaustiveOne(t *testing.T, rec *ev.Recorder, layers []c28Layer, li int, fs, bs c28Setting, i int, pools []c28Pool, np, nsup *int) {
	out, bad := c28Check(layers, bs, pools, "10.0.0.0/24")
	if bad != "" {
		c28Fail(t, bad)
	}
	*np++
	cl := []string{"unsupported-pairing"}
	if out.Supported {
		*nsup++
		cl = []string{"supported-pairing"}
	}
	if c28Effective(fs, "") == "" || c28Effective(bs, "") == "" {
		cl = append(cl, "absent-or-unrecognised")
	} else {
		cl = append(cl, "both-recognised")
	}
	if li > 0 {
		cl = append(cl, "felix-layered-sources")
		if c28Effective(fs, "") == "" {
			cl = append(cl, "felix-unrecognised-shadowing-lower-valid")
		}
	}
	for _, p := range pools {
		if p.Disabled {
			cl = append(cl, "disabled-pool")
			break
		}
	}
	rec.Case(out.Supported, fmt.Sprintf("%v|%d|%v|%d", fs, li, bs, i), func() any {
		return map[string]any{"felix": fmt.Sprintf("%+v", layers), "bgp": bs.String(), "result": out.Lines}
	}, cl...)
}

// TestVerifC28Mixed: random pool sets (random disjoint CIDRs, several pools per class, export
// disabled or not), random local subnet, Felix value arriving from different config sources.
func TestVerifC28Mixed(t *testing.T) {
	ev.Quiet()
	rec := ev.New("C28", "mixed",
		"supported pairing (or absent/unrecognised stand-ins for its values) chosen 80% of the time, 1-6 pools with random disjoint CIDRs, modes and ownership-neutral flags (disabled, natOutgoing, assignmentMode, nodeSelector, allowedUses, disableBGPExport), random IPv4 local subnet, Felix value in any of Felix's five sources with 0-2 lower-priority sources carrying other values; non-trivial = supported pairing and >=2 pool classes present; distinct = (felix, bgp, pool modes)",
		"IPv4 local subnet is known to confd", "Felix's IPv6 support is enabled; the deprecated VXLANEnabled/IpInIpEnabled overrides are unset")
	defer rec.Write()
	fset, bset := c28FelixSettings(), c28BGPSettings()
	standIns := func(t *rapid.T, want, def string, all []c28Setting, label string) c28Setting {
		var opts []c28Setting
		for _, s := range all {
			if c28Effective(s, def) == want {
				opts = append(opts, s)
			}
		}
		return rapid.SampledFrom(opts).Draw(t, label)
	}
	rapid.Check(t, func(t *rapid.T) {
		var fs, bs c28Setting
		if rapid.IntRange(0, 9).Draw(t, "supportedPairing") < 8 {
			fv := rapid.SampledFrom(c28Values).Draw(t, "felixActsAs")
			fs = standIns(t, fv, c28FelixDefault, fset, "felixSetting")
			bs = standIns(t, c28Supported[fv], c28BGPDefault, bset, "bgpSetting")
		} else {
			fs = rapid.SampledFrom(fset).Draw(t, "felixSetting")
			bs = rapid.SampledFrom(bset).Draw(t, "bgpSetting")
		}
		// The Felix setting under test sits in the highest-priority source that sets the key;
		// 0-2 lower-priority sources carry other values (any of the four, or unrecognised).
		var layers []c28Layer
		lowerValid := false
		if fs.Kind == "value" {
			top := rapid.IntRange(0, len(c28Sources)-1).Draw(t, "felixSource")
			layers = append(layers, c28Layer{c28Sources[top], fs.Value})
			if top > 0 {
				nLower := rapid.IntRange(0, 2).Draw(t, "nLowerSources")
				lower := rapid.Permutation(c28Sources[:top]).Draw(t, "lowerSources")
				for i := 0; i < nLower && i < len(lower); i++ {
					v := rapid.SampledFrom(append(append([]string{}, c28Values...), c28Junk[0])).Draw(t, "lowerValue")
					layers = append(layers, c28Layer{lower[i], v})
					if v != c28Junk[0] {
						lowerValid = true
					}
				}
			}
		}
		nPools := rapid.IntRange(1, 6).Draw(t, "nPools")
		used := map[string]bool{}
		var pools []c28Pool
		for i := 0; i < nPools; i++ {
			mode := rapid.SampledFrom(append([]string{"none"}, c28Modes...)).Draw(t, "mode")
			v6 := !strings.HasPrefix(mode, "ipip") && rapid.IntRange(0, 2).Draw(t, "v6") == 0
			var cidr string
			if v6 {
				cidr = fmt.Sprintf("fd00:%x::/%d", rapid.IntRange(1, 40).Draw(t, "v6net"), rapid.SampledFrom([]int{48, 64, 112, 122}).Draw(t, "v6len"))
			} else {
				l := rapid.SampledFrom([]int{16, 20, 24, 26}).Draw(t, "v4len")
				cidr = fmt.Sprintf("10.%d.0.0/%d", rapid.IntRange(1, 40).Draw(t, "v4net"), l)
			}
			key := strings.SplitN(cidr, "/", 2)[0]
			if used[key] {
				continue // pools may not overlap
			}
			used[key] = true
			pools = append(pools, c28Pool{CIDR: cidr, Mode: mode, DisableBGPExport: rapid.IntRange(0, 3).Draw(t, "noExport") == 0,
				Disabled:     rapid.IntRange(0, 2).Draw(t, "disabled") == 0,
				NATOutgoing:  rapid.Bool().Draw(t, "natOutgoing"),
				Manual:       rapid.IntRange(0, 3).Draw(t, "manual") == 0,
				NodeSelector: rapid.SampledFrom([]string{"", "all()", "!all()", "rack == 'r1'"}).Draw(t, "nodeSelector"),
				Uses:         rapid.SampledFrom([]string{"", "workload", "tunnel", "both"}).Draw(t, "allowedUses")})
		}
		localSubnet := fmt.Sprintf("172.16.%d.0/24", rapid.IntRange(0, 9).Draw(t, "localSubnet"))
		var out c28Outcome
		var bad string
		c28WithNodeName(func() { out, bad = c28Check(layers, bs, pools, localSubnet) })
		if bad != "" {
			c28Fail(t, bad)
		}
		classes := map[string]bool{}
		var modes []string
		for _, p := range pools {
			classes[p.class()] = true
			modes = append(modes, p.Mode)
		}
		sort.Strings(modes)
		cl := []string{"unsupported-pairing"}
		if out.Supported {
			cl = []string{"supported-pairing"}
		}
		if c28Effective(fs, "") == "" || c28Effective(bs, "") == "" {
			cl = append(cl, "absent-or-unrecognised")
		}
		for c := range classes {
			cl = append(cl, "has-"+c)
		}
		if len(layers) > 1 {
			cl = append(cl, "felix-layered-sources")
			if lowerValid && c28Effective(fs, "") == "" {
				cl = append(cl, "felix-unrecognised-shadowing-lower-valid")
			}
		}
		for _, p := range pools {
			if p.Disabled {
				cl = append(cl, "disabled-pool")
				break
			}
		}
		sort.Strings(cl)
		rec.Case(out.Supported && len(classes) >= 2, fmt.Sprintf("%v|%d|%v|%v", fs, len(layers), bs, modes), func() any {
			return map[string]any{"felix": fmt.Sprintf("%+v", layers), "bgp": bs.String(), "result": out.Lines}
		}, cl...)
	})
}
