package calico

// C28, confd histories — "every IP pool's cluster routes are programmed by exactly one of Felix and
// BIRD" must also hold after the settings and the pools change inside a running confd.
//
// One long-lived confd client is driven through its real update path (onUpdates, as the syncer's
// batches arrive) over a generated history: the default BGPConfiguration created with a value /
// without the field / with an unrecognised value, changed, field unset, deleted and re-created;
// pools added, edited between encapsulation modes, disabled, deleted.  After every step the
// kernel-programming filter it renders (GetBirdBGPConfig) must equal the one a fresh client
// renders when given only the final state, and — with Felix's side computed from the final state
// as in the static test — every pool must have exactly the owner the pairing assigns.

import (
	"fmt"
	"maps"
	"reflect"
	"sort"
	"strings"
	"sync"
	"testing"

	v3 "github.com/projectcalico/api/pkg/apis/projectcalico/v3"
	"pgregory.net/rapid"

	felixconfig "github.com/projectcalico/calico/felix/config"
	"github.com/projectcalico/calico/libcalico-go/lib/backend/api"
	"github.com/projectcalico/calico/libcalico-go/lib/backend/model"
	"github.com/projectcalico/calico/verifkit/ev"
)

// c28NewLiveClient builds a client the way NewCalicoClient does (no datastore, no goroutines):
// not yet in sync; the route generator and the local BGP peer watcher report ready at once, the
// syncer's status is driven by the caller through onStatusUpdated.
func c28NewLiveClient(localSubnet string) *client {
	c := &client{
		cache:                    map[string]string{},
		peeringCache:             map[string]string{},
		cacheRevision:            1,
		revisionsByPrefix:        map[string]uint64{},
		nodeLabelManager:         newNodeLabelManager(),
		bgpPeers:                 map[string]*v3.BGPPeer{},
		sourceReady:              map[string]bool{},
		nodeListenPorts:          map[string]uint16{},
		nodeIPs:                  map[string]struct{}{},
		programmedRouteRefCount:  map[string]int{},
		ExternalIPRouteIndex:     NewRouteIndex(),
		ClusterIPRouteIndex:      NewRouteIndex(),
		LoadBalancerIPRouteIndex: NewRouteIndex(),
		configCache:              map[int]*bgpConfigCache{},
		stopCh:                   make(chan struct{}),
	}
	c.watcherCond = sync.NewCond(&c.cacheLock)
	c.waitForSync.Add(1)
	maps.Copy(c.cache, globalDefaults)
	c.cache[fmt.Sprintf("/calico/bgp/v1/host/%s/ip_addr_v4", NodeName)] = "172.16.0.1"
	c.cache[fmt.Sprintf("/calico/bgp/v1/host/%s/ip_addr_v6", NodeName)] = "fd00:172::1"
	c.cache[fmt.Sprintf("/calico/bgp/v1/host/%s/network_v4", NodeName)] = localSubnet
	c.OnSyncChange(SourceRouteGenerator, true)
	c.OnSyncChange(SourceLocalBGPPeerWatcher, true)
	return c
}

func c28PoolUpdate(p c28Pool) api.Update {
	mp := p.model()
	return api.Update{UpdateType: api.UpdateTypeKVUpdated, KVPair: model.KVPair{Key: model.IPPoolKey{CIDR: model.PrefixFromIPNet(mp.CIDR)}, Value: mp}}
}

func c28PoolDelete(p c28Pool) api.Update {
	mp := p.model()
	return api.Update{UpdateType: api.UpdateTypeKVDeleted, KVPair: model.KVPair{Key: model.IPPoolKey{CIDR: model.PrefixFromIPNet(mp.CIDR)}}}
}

func c28BGPUpdate(s c28Setting) api.Update {
	key := model.ResourceKey{Kind: v3.KindBGPConfiguration, Name: "default"}
	if s.Kind == "no-object" {
		return api.Update{UpdateType: api.UpdateTypeKVDeleted, KVPair: model.KVPair{Key: key}}
	}
	cfg := v3.NewBGPConfiguration()
	cfg.Name = "default"
	if s.Kind == "value" {
		v := s.Value
		cfg.Spec.ProgramClusterRoutes = &v
	}
	return api.Update{UpdateType: api.UpdateTypeKVUpdated, KVPair: model.KVPair{Key: key, Value: cfg}}
}

func c28LiveFilters(c *client) (map[int][]string, string) {
	out := map[int][]string{}
	for _, ver := range []int{4, 6} {
		cfg, err := c.GetBirdBGPConfig(ver)
		if err != nil {
			return nil, fmt.Sprintf("HARNESS-GAP: GetBirdBGPConfig(%d) failed: %v", ver, err)
		}
		out[ver] = append([]string(nil), cfg.KernelFilterForIPPools...)
	}
	return out, ""
}

func TestVerifC28ConfdHistory(t *testing.T) {
	ev.Quiet()
	rec := ev.New("C28", "confd-history",
		"one long-lived confd client driven through onUpdates over 3-8 steps: default BGPConfiguration set to one of the four values / created without the field / set to an unrecognised value / deleted (and later re-created), pools added, edited between encapsulation modes, disabled/enabled, deleted, and the syncer losing sync (ResyncInProgress / WaitForDatastore), delivering the changes made meanwhile, and reporting in-sync again; after every step taken in sync its kernel filter (read through GetBirdBGPConfig and its revision-keyed cache, as the template does) is compared with a fresh client given only the final state, and with Felix's side (setting chosen to form a supported pairing 80% of the time); non-trivial = the history contains a BGPConfiguration delete or field-unset after a non-default value, or a pool edited between classes, or changes delivered during a resync; distinct = sequence of step kinds",
		"IPv4 local subnet is known to confd", "updates arrive one batch per step, after the syncer's in-sync")
	defer rec.Write()
	fset, bset := c28FelixSettings(), c28BGPSettings()

	rapid.Check(t, func(t *rapid.T) {
		var bad string
		var shape []string
		classes := map[string]bool{}
		nontrivial := false
		c28WithNodeName(func() {
			localSubnet := "172.16.0.0/24"
			live := c28NewLiveClient(localSubnet)
			live.onStatusUpdated(api.InSync) // start of day: empty datastore snapshot, then in sync
			inSync := true
			changedWhileAway := false
			bgp := c28Setting{Kind: "no-object"}
			pools := map[string]c28Pool{}
			history := ""
			deletedOnce := false
			newPool := func() (c28Pool, bool) {
				mode := rapid.SampledFrom(append([]string{"none"}, c28Modes...)).Draw(t, "mode")
				v6 := !strings.HasPrefix(mode, "ipip") && rapid.IntRange(0, 3).Draw(t, "v6") == 0
				cidr := fmt.Sprintf("10.%d.0.0/16", rapid.IntRange(1, 8).Draw(t, "v4net"))
				if v6 {
					cidr = fmt.Sprintf("fd00:%x::/64", rapid.IntRange(1, 8).Draw(t, "v6net"))
				}
				if _, dup := pools[cidr]; dup {
					return c28Pool{}, false
				}
				return c28Pool{CIDR: cidr, Mode: mode, DisableBGPExport: rapid.IntRange(0, 3).Draw(t, "noExport") == 0}, true
			}
			pick := func(label string) (c28Pool, bool) {
				if len(pools) == 0 {
					return c28Pool{}, false
				}
				var keys []string
				for k := range pools {
					keys = append(keys, k)
				}
				sort.Strings(keys)
				return pools[rapid.SampledFrom(keys).Draw(t, label)], true
			}
			nSteps := rapid.IntRange(3, 8).Draw(t, "nSteps")
			for step := 0; step < nSteps && bad == ""; step++ {
				var batch []api.Update
				kind := rapid.SampledFrom([]string{"bgp-set", "bgp-set", "bgp-unset-field", "bgp-delete", "pool-add", "pool-add", "pool-edit", "pool-edit", "pool-disable", "pool-delete", "sync", "sync"}).Draw(t, "step")
				if step == 0 {
					kind = "pool-add"
				}
				if step == nSteps-1 && !inSync {
					kind = "sync" // every history ends in sync
				}
				switch kind {
				case "sync":
					// the syncer loses its connection / watch and resyncs; whatever changed in
					// the datastore meanwhile is delivered before it reports in-sync again
					if inSync {
						kind = "sync-lost"
						live.onStatusUpdated(rapid.SampledFrom([]api.SyncStatus{api.ResyncInProgress, api.WaitForDatastore}).Draw(t, "lostStatus"))
						inSync = false
						changedWhileAway = false
					} else {
						kind = "sync-regained"
						live.onStatusUpdated(api.InSync)
						inSync = true
						if changedWhileAway {
							nontrivial = true
							classes["changes-delivered-during-resync"] = true
						}
					}
				case "bgp-set":
					prev := bgp
					bgp = c28Setting{"value", rapid.SampledFrom(append(append([]string{}, c28Values...), c28Junk[0])).Draw(t, "bgpValue")}
					if prev.Kind == "no-object" && deletedOnce {
						classes["bgpconfig-recreated"] = true
					}
					batch = append(batch, c28BGPUpdate(bgp))
				case "bgp-unset-field":
					if c28Effective(bgp, c28BGPDefault) != c28BGPDefault {
						nontrivial = true
						classes["bgp-field-unset-after-non-default"] = true
					}
					bgp = c28Setting{Kind: "absent"}
					batch = append(batch, c28BGPUpdate(bgp))
				case "bgp-delete":
					if c28Effective(bgp, c28BGPDefault) != c28BGPDefault {
						nontrivial = true
						classes["bgpconfig-deleted-after-non-default"] = true
					}
					if bgp.Kind != "no-object" {
						deletedOnce = true
					}
					bgp = c28Setting{Kind: "no-object"}
					batch = append(batch, c28BGPUpdate(bgp))
				case "pool-add":
					if p, ok := newPool(); ok {
						pools[p.CIDR] = p
						batch = append(batch, c28PoolUpdate(p))
					}
				case "pool-edit":
					if p, ok := pick("editedPool"); ok {
						old := p.class()
						modes := c28Modes
						if p.v6() {
							modes = []string{"vxlan-always", "vxlan-cross", "none"}
						}
						p.Mode = rapid.SampledFrom(modes).Draw(t, "newMode")
						if p.class() != old {
							nontrivial = true
							classes["pool-edited-between-classes"] = true
						}
						pools[p.CIDR] = p
						batch = append(batch, c28PoolUpdate(p))
					}
				case "pool-disable":
					if p, ok := pick("toggledPool"); ok {
						p.Disabled = !p.Disabled
						classes["disabled-pool"] = true
						pools[p.CIDR] = p
						batch = append(batch, c28PoolUpdate(p))
					}
				case "pool-delete":
					if p, ok := pick("deletedPool"); ok {
						delete(pools, p.CIDR)
						classes["pool-deleted"] = true
						batch = append(batch, c28PoolDelete(p))
					}
				}
				shape = append(shape, kind)
				if len(batch) == 0 && kind != "sync-regained" {
					continue
				}
				if len(batch) > 0 {
					live.onUpdates(batch, false)
					if !inSync {
						changedWhileAway = true
					}
				}

				var cur []c28Pool
				for _, p := range pools {
					cur = append(cur, p)
				}
				sort.Slice(cur, func(i, j int) bool { return cur[i].CIDR < cur[j].CIDR })
				history += fmt.Sprintf("  step %d %s: BGPConfiguration.programClusterRoutes=%v pools=%+v\n", step, kind, bgp, cur)
				if !inSync {
					continue // confd renders nothing until it is in sync again (GetValues blocks)
				}

				got, gap := c28LiveFilters(live)
				if gap != "" {
					bad = gap
					return
				}
				// a fresh confd that only ever sees the final state
				fresh := c28NewLiveClient(localSubnet)
				var all []api.Update
				if bgp.Kind != "no-object" {
					all = append(all, c28BGPUpdate(bgp))
				}
				for _, p := range cur {
					all = append(all, c28PoolUpdate(p))
				}
				fresh.onUpdates(all, false) // the start-of-day snapshot
				fresh.onStatusUpdated(api.InSync)
				want, gap := c28LiveFilters(fresh)
				if gap != "" {
					bad = gap
					return
				}
				if !reflect.DeepEqual(got, want) {
					bad = fmt.Sprintf("after step %d the running confd renders a kernel-programming filter that differs from a fresh confd given only the final state\nrunning v4:\n%s\nfresh v4:\n%s\nrunning v6:\n%s\nfresh v6:\n%s\nhistory:\n%s",
						step, strings.Join(got[4], "\n"), strings.Join(want[4], "\n"), strings.Join(got[6], "\n"), strings.Join(want[6], "\n"), history)
					return
				}
				// together with Felix's side
				var fs c28Setting
				if rapid.IntRange(0, 9).Draw(t, "supportedPairing") < 8 {
					be := c28Effective(bgp, c28BGPDefault)
					var opts []c28Setting
					for _, s := range fset {
						if c28Supported[c28Effective(s, c28FelixDefault)] == be {
							opts = append(opts, s)
						}
					}
					fs = rapid.SampledFrom(opts).Draw(t, "felixSetting")
				} else {
					fs = rapid.SampledFrom(fset).Draw(t, "felixSetting")
				}
				var layers []c28Layer
				if fs.Kind == "value" {
					layers = []c28Layer{{felixconfig.DatastoreGlobal, fs.Value}}
				}
				felix, fbad := c28FelixSide(layers, cur)
				if fbad != "" {
					bad = fbad
					return
				}
				if _, jbad := c28Judge(layers, fs, felix, bgp, cur, got); jbad != "" {
					bad = jbad + "\nhistory of the running confd:\n" + history
					return
				}
			}
			_ = bset
		})
		if bad != "" {
			c28Fail(t, bad)
		}
		var cl []string
		for c := range classes {
			cl = append(cl, c)
		}
		sort.Strings(cl)
		rec.SizedCase(nontrivial, strings.Join(shape, ","), len(shape), func() any { return map[string]any{"steps": shape} }, cl...)
	})
}
