// Package dpmon is a strict "dataplane monitor" for the message stream that Felix's
// calc.EventSequencer hands to its Callback.
//
// It does two things:
//
//  1. It folds the stream into a state (what a dataplane that applied every message would hold):
//     IP sets with members, active policies and profiles (full proto), workload / host
//     endpoints (full proto, incl. tier/policy lists and profile ids), routes, VTEPs, host
//     metadata, IPAM pools, service accounts, namespaces, encapsulation, wireguard endpoints,
//     services, global BGP config.  Snapshot() renders that state canonically (sorted keys,
//     sorted IP-set members) so two monitors can be compared (property C01).
//
//  2. It checks every message, as it arrives, against the referential-integrity and ordering
//     rules of property C02 and reports the first broken rule as an error from OnEvent /
//     EndFlush.  The rules are exactly the clauses of the C02 statement:
//
//     - an IP set is present before any policy/profile that references it
//     (every IP-set id in every rule field of an ActivePolicyUpdate/ActiveProfileUpdate
//     exists *now*);
//     - a policy / profile is present before any endpoint that references it (every policy in
//     every tier list, and every profile id, of a Workload/HostEndpointUpdate exists now);
//     - nothing is removed while something present still references it (IPSetRemove vs.
//     policies+profiles, ActivePolicyRemove / ActiveProfileRemove vs. endpoints);
//     - IPSetDeltaUpdate only on an existing set, added members absent, removed members present;
//     - removals only name existing objects;
//     - proto.InSync is never seen before the harness told the monitor that the datastore
//     reported in-sync (DatastoreInSync()).
//     - VTEP / route ordering, in the flush-boundary-aware form (see EndFlush): within one flush
//     a route that needs the VTEP of node N (VXLAN pool type, dst_node_name N) is not added
//     before N's VTEP if that VTEP is present at the end of the flush, N's VTEP is not
//     removed before the removal of a route that needed it, and N's VTEP is not removed and
//     re-added within one flush while present routes needed it.
//
// What is deliberately legal (checked against felix/dataplane/mock and the design docs):
// IPSetUpdate for an existing id is a full replacement; updates of existing policies,
// profiles, endpoints, routes and VTEPs are replacements; a route may exist without a VTEP
// (the VXLAN manager waits for the VTEP); a member listed in both added and removed lists is
// processed add-then-remove like the repo's mock does.
//
// The package has no test-framework dependency; it only imports felix/proto.
package dpmon

import (
	"fmt"
	"sort"
	"strings"

	"google.golang.org/protobuf/encoding/prototext"
	googleproto "google.golang.org/protobuf/proto"

	"github.com/projectcalico/calico/felix/proto"
)

// IPSet is the folded state of one IP set.
type IPSet struct {
	Type    proto.IPSetUpdate_IPSetType
	Members map[string]struct{}
}

// Monitor folds the stream and checks it.  Not safe for concurrent use.
type Monitor struct {
	IPSets     map[string]*IPSet
	Policies   map[string]*proto.Policy
	Profiles   map[string]*proto.Profile
	WEPs       map[string]*proto.WorkloadEndpoint
	HEPs       map[string]*proto.HostEndpoint
	Routes     map[string]*proto.RouteUpdate
	VTEPs      map[string]*proto.VXLANTunnelEndpointUpdate
	Hosts      map[string]*proto.HostMetadataUpdate
	Pools      map[string]*proto.IPAMPool
	SAs        map[string]*proto.ServiceAccountUpdate
	Namespaces map[string]*proto.NamespaceUpdate
	Wireguard  map[string]*proto.WireguardEndpointUpdate
	WireguardV map[string]*proto.WireguardEndpointV6Update
	Services   map[string]*proto.ServiceUpdate
	Encap      *proto.Encapsulation
	GlobalBGP  *proto.GlobalBGPConfigUpdate

	// Counters (evidence / non-triviality).
	NumMessages      int
	NumInSync        int
	NumIPSetReplaced int // IPSetUpdate for an id that already existed
	NumRemoves       int
	NumDeltas        int
	NumOther         int // message kinds the monitor does not interpret (config, not-ready, ...)
	NumPolicyRefChg  int // ActivePolicy/ProfileUpdate that changed the set of referenced IP sets
	// VTEP/route rule exercised non-vacuously: flushes in which a VTEP add and the add of a route
	// needing it both occurred / a VTEP remove and the remove of a route that needed it both occurred.
	NumVTEPRouteAddFlushes int
	NumVTEPRouteDelFlushes int
	// NumVTEPModifiedWithLiveRoute: VTEP updates for a node whose VTEP was already present while a
	// present route needed it (the situation in which the sequencer must squash the resolver's
	// remove+update pair).
	NumVTEPModifiedWithLiveRoute int

	datastoreInSync bool

	// noFlushBoundaries: the caller cannot observe flush boundaries (AsyncCalcGraph stream), so the
	// flush-scoped VTEP/route rule is not evaluated at all.
	noFlushBoundaries bool

	// Per-flush bookkeeping for the VTEP/route rule.
	flushRouteAdds   []routeAdd          // route updates needing a VTEP, with VTEP presence at that time
	flushVTEPRemoved map[string][]string // node -> dsts of VXLAN routes to node present when its VTEP was removed
	flushRemoved     map[string]bool     // object keys removed in this flush (for "removed and re-added" class)
	flushVTEPAdded   map[string]bool     // nodes whose VTEP was added/updated in this flush
	flushRouteDelFor map[string]bool     // nodes for which a route needing their VTEP was removed in this flush
	FlushReAdds      int                 // objects removed and (re)added within one flush (class counter)
}

type routeAdd struct {
	dst, node string
	vtepThere bool
	seq       int
}

func New() *Monitor {
	m := &Monitor{
		IPSets:     map[string]*IPSet{},
		Policies:   map[string]*proto.Policy{},
		Profiles:   map[string]*proto.Profile{},
		WEPs:       map[string]*proto.WorkloadEndpoint{},
		HEPs:       map[string]*proto.HostEndpoint{},
		Routes:     map[string]*proto.RouteUpdate{},
		VTEPs:      map[string]*proto.VXLANTunnelEndpointUpdate{},
		Hosts:      map[string]*proto.HostMetadataUpdate{},
		Pools:      map[string]*proto.IPAMPool{},
		SAs:        map[string]*proto.ServiceAccountUpdate{},
		Namespaces: map[string]*proto.NamespaceUpdate{},
		Wireguard:  map[string]*proto.WireguardEndpointUpdate{},
		WireguardV: map[string]*proto.WireguardEndpointV6Update{},
		Services:   map[string]*proto.ServiceUpdate{},
	}
	m.resetFlush()
	return m
}

func (m *Monitor) resetFlush() {
	m.flushRouteAdds = nil
	m.flushVTEPRemoved = map[string][]string{}
	m.flushRemoved = map[string]bool{}
	m.flushVTEPAdded = map[string]bool{}
	m.flushRouteDelFor = map[string]bool{}
}

// NoFlushBoundaries switches the flush-scoped VTEP/route rule off; use it when EndFlush cannot be
// called at the real flush boundaries (the rule would otherwise relate messages of different
// flushes and raise false alarms).
func (m *Monitor) NoFlushBoundaries() { m.noFlushBoundaries = true }

// DatastoreInSync tells the monitor that the datastore has reported in-sync to Felix (call it
// immediately *before* handing the status to the code under test).
func (m *Monitor) DatastoreInSync() { m.datastoreInSync = true }

// PolicyKey renders a proto.PolicyID as the monitor's map key.
func PolicyKey(id *proto.PolicyID) string {
	return id.GetKind() + "|" + id.GetNamespace() + "|" + id.GetName()
}

func wepKey(id *proto.WorkloadEndpointID) string {
	return id.GetOrchestratorId() + "|" + id.GetWorkloadId() + "|" + id.GetEndpointId()
}

// RuleIPSetIDs returns every IP set id referenced by any field of the rule.
func RuleIPSetIDs(r *proto.Rule) []string {
	var out []string
	out = append(out, r.GetSrcIpSetIds()...)
	out = append(out, r.GetDstIpSetIds()...)
	out = append(out, r.GetNotSrcIpSetIds()...)
	out = append(out, r.GetNotDstIpSetIds()...)
	out = append(out, r.GetSrcNamedPortIpSetIds()...)
	out = append(out, r.GetDstNamedPortIpSetIds()...)
	out = append(out, r.GetNotSrcNamedPortIpSetIds()...)
	out = append(out, r.GetNotDstNamedPortIpSetIds()...)
	out = append(out, r.GetDstIpPortSetIds()...)
	return out
}

func rulesIPSetIDs(in, out []*proto.Rule) map[string]struct{} {
	ids := map[string]struct{}{}
	for _, r := range in {
		for _, id := range RuleIPSetIDs(r) {
			ids[id] = struct{}{}
		}
	}
	for _, r := range out {
		for _, id := range RuleIPSetIDs(r) {
			ids[id] = struct{}{}
		}
	}
	return ids
}

func sameKeys(a, b map[string]struct{}) bool {
	if len(a) != len(b) {
		return false
	}
	for k := range a {
		if _, ok := b[k]; !ok {
			return false
		}
	}
	return true
}

func sortedKeys[V any](m map[string]V) []string {
	ks := make([]string, 0, len(m))
	for k := range m {
		ks = append(ks, k)
	}
	sort.Strings(ks)
	return ks
}

func tierPolicyKeys(tiers ...[]*proto.TierInfo) []string {
	var out []string
	for _, ts := range tiers {
		for _, t := range ts {
			for _, p := range t.GetIngressPolicies() {
				out = append(out, PolicyKey(p))
			}
			for _, p := range t.GetEgressPolicies() {
				out = append(out, PolicyKey(p))
			}
		}
	}
	return out
}

// RouteNeedsVTEP reports whether a route is one that is programmed via the VTEP of its
// dst_node_name (a VXLAN-pool route that names a node).
func RouteNeedsVTEP(r *proto.RouteUpdate) bool {
	return r.GetIpPoolType() == proto.IPPoolType_VXLAN && r.GetDstNodeName() != ""
}

func (m *Monitor) policyUsers(polKey string) []string {
	var users []string
	for _, id := range sortedKeys(m.WEPs) {
		for _, k := range tierPolicyKeys(m.WEPs[id].GetTiers()) {
			if k == polKey {
				users = append(users, "wep "+id)
				break
			}
		}
	}
	for _, id := range sortedKeys(m.HEPs) {
		h := m.HEPs[id]
		for _, k := range tierPolicyKeys(h.GetTiers(), h.GetUntrackedTiers(), h.GetPreDnatTiers(), h.GetForwardTiers()) {
			if k == polKey {
				users = append(users, "hep "+id)
				break
			}
		}
	}
	return users
}

func (m *Monitor) profileUsers(name string) []string {
	var users []string
	for _, id := range sortedKeys(m.WEPs) {
		for _, p := range m.WEPs[id].GetProfileIds() {
			if p == name {
				users = append(users, "wep "+id)
				break
			}
		}
	}
	for _, id := range sortedKeys(m.HEPs) {
		for _, p := range m.HEPs[id].GetProfileIds() {
			if p == name {
				users = append(users, "hep "+id)
				break
			}
		}
	}
	return users
}

func (m *Monitor) ipSetUsers(setID string) []string {
	var users []string
	for _, id := range sortedKeys(m.Policies) {
		p := m.Policies[id]
		if _, ok := rulesIPSetIDs(p.GetInboundRules(), p.GetOutboundRules())[setID]; ok {
			users = append(users, "policy "+id)
		}
	}
	for _, id := range sortedKeys(m.Profiles) {
		p := m.Profiles[id]
		if _, ok := rulesIPSetIDs(p.GetInboundRules(), p.GetOutboundRules())[setID]; ok {
			users = append(users, "profile "+id)
		}
	}
	return users
}

func (m *Monitor) noteRemoved(key string) {
	m.NumRemoves++
	m.flushRemoved[key] = true
}

func (m *Monitor) noteAdded(key string) {
	if m.flushRemoved[key] {
		m.FlushReAdds++
		delete(m.flushRemoved, key)
	}
}

// OnEvent applies one message.  The returned error describes the first C02 rule the message
// breaks (nil if none).  The message is folded into the state in either case.
func (m *Monitor) OnEvent(msg any) error {
	m.NumMessages++
	var errs []string
	bad := func(format string, args ...any) {
		errs = append(errs, fmt.Sprintf(format, args...))
	}
	switch e := msg.(type) {
	case *proto.InSync:
		m.NumInSync++
		if !m.datastoreInSync {
			bad("proto.InSync emitted before the datastore reported in-sync")
		}

	case *proto.IPSetUpdate:
		if _, ok := m.IPSets[e.Id]; ok {
			m.NumIPSetReplaced++
		}
		s := &IPSet{Type: e.Type, Members: map[string]struct{}{}}
		for _, mem := range e.Members {
			s.Members[mem] = struct{}{}
		}
		m.IPSets[e.Id] = s
		m.noteAdded("ipset/" + e.Id)
	case *proto.IPSetDeltaUpdate:
		m.NumDeltas++
		s, ok := m.IPSets[e.Id]
		if !ok {
			bad("IPSetDeltaUpdate for IP set %q which does not exist", e.Id)
			break
		}
		for _, mem := range e.AddedMembers {
			if _, present := s.Members[mem]; present {
				bad("IPSetDeltaUpdate %q adds member %q which is already present", e.Id, mem)
			}
			s.Members[mem] = struct{}{}
		}
		for _, mem := range e.RemovedMembers {
			if _, present := s.Members[mem]; !present {
				bad("IPSetDeltaUpdate %q removes member %q which is not present", e.Id, mem)
			}
			delete(s.Members, mem)
		}
	case *proto.IPSetRemove:
		if _, ok := m.IPSets[e.Id]; !ok {
			bad("IPSetRemove for IP set %q which does not exist", e.Id)
		}
		if users := m.ipSetUsers(e.Id); len(users) > 0 {
			bad("IPSetRemove %q while still referenced by %v", e.Id, users)
		}
		delete(m.IPSets, e.Id)
		m.noteRemoved("ipset/" + e.Id)

	case *proto.ActivePolicyUpdate:
		k := PolicyKey(e.GetId())
		newRefs := rulesIPSetIDs(e.GetPolicy().GetInboundRules(), e.GetPolicy().GetOutboundRules())
		for _, id := range sortedKeys(newRefs) {
			if _, ok := m.IPSets[id]; !ok {
				bad("ActivePolicyUpdate %q references IP set %q which is not present", k, id)
			}
		}
		if old, ok := m.Policies[k]; ok {
			if !sameKeys(newRefs, rulesIPSetIDs(old.GetInboundRules(), old.GetOutboundRules())) {
				m.NumPolicyRefChg++
			}
		}
		m.Policies[k] = e.GetPolicy()
		m.noteAdded("policy/" + k)
	case *proto.ActivePolicyRemove:
		k := PolicyKey(e.GetId())
		if _, ok := m.Policies[k]; !ok {
			bad("ActivePolicyRemove for policy %q which does not exist", k)
		}
		if users := m.policyUsers(k); len(users) > 0 {
			bad("ActivePolicyRemove %q while still referenced by %v", k, users)
		}
		delete(m.Policies, k)
		m.noteRemoved("policy/" + k)

	case *proto.ActiveProfileUpdate:
		k := e.GetId().GetName()
		newRefs := rulesIPSetIDs(e.GetProfile().GetInboundRules(), e.GetProfile().GetOutboundRules())
		for _, id := range sortedKeys(newRefs) {
			if _, ok := m.IPSets[id]; !ok {
				bad("ActiveProfileUpdate %q references IP set %q which is not present", k, id)
			}
		}
		if old, ok := m.Profiles[k]; ok {
			if !sameKeys(newRefs, rulesIPSetIDs(old.GetInboundRules(), old.GetOutboundRules())) {
				m.NumPolicyRefChg++
			}
		}
		m.Profiles[k] = e.GetProfile()
		m.noteAdded("profile/" + k)
	case *proto.ActiveProfileRemove:
		k := e.GetId().GetName()
		if _, ok := m.Profiles[k]; !ok {
			bad("ActiveProfileRemove for profile %q which does not exist", k)
		}
		if users := m.profileUsers(k); len(users) > 0 {
			bad("ActiveProfileRemove %q while still referenced by %v", k, users)
		}
		delete(m.Profiles, k)
		m.noteRemoved("profile/" + k)

	case *proto.WorkloadEndpointUpdate:
		k := wepKey(e.GetId())
		for _, pk := range tierPolicyKeys(e.GetEndpoint().GetTiers()) {
			if _, ok := m.Policies[pk]; !ok {
				bad("WorkloadEndpointUpdate %q references policy %q which is not present", k, pk)
			}
		}
		for _, p := range e.GetEndpoint().GetProfileIds() {
			if _, ok := m.Profiles[p]; !ok {
				bad("WorkloadEndpointUpdate %q references profile %q which is not present", k, p)
			}
		}
		m.WEPs[k] = e.GetEndpoint()
		m.noteAdded("wep/" + k)
	case *proto.WorkloadEndpointRemove:
		k := wepKey(e.GetId())
		if _, ok := m.WEPs[k]; !ok {
			bad("WorkloadEndpointRemove for endpoint %q which does not exist", k)
		}
		delete(m.WEPs, k)
		m.noteRemoved("wep/" + k)

	case *proto.HostEndpointUpdate:
		k := e.GetId().GetEndpointId()
		h := e.GetEndpoint()
		for _, pk := range tierPolicyKeys(h.GetTiers(), h.GetUntrackedTiers(), h.GetPreDnatTiers(), h.GetForwardTiers()) {
			if _, ok := m.Policies[pk]; !ok {
				bad("HostEndpointUpdate %q references policy %q which is not present", k, pk)
			}
		}
		for _, p := range h.GetProfileIds() {
			if _, ok := m.Profiles[p]; !ok {
				bad("HostEndpointUpdate %q references profile %q which is not present", k, p)
			}
		}
		m.HEPs[k] = h
		m.noteAdded("hep/" + k)
	case *proto.HostEndpointRemove:
		k := e.GetId().GetEndpointId()
		if _, ok := m.HEPs[k]; !ok {
			bad("HostEndpointRemove for endpoint %q which does not exist", k)
		}
		delete(m.HEPs, k)
		m.noteRemoved("hep/" + k)

	case *proto.RouteUpdate:
		if RouteNeedsVTEP(e) && !m.noFlushBoundaries {
			_, there := m.VTEPs[e.DstNodeName]
			m.flushRouteAdds = append(m.flushRouteAdds, routeAdd{dst: e.Dst, node: e.DstNodeName, vtepThere: there, seq: m.NumMessages})
		}
		m.Routes[e.Dst] = e
		m.noteAdded("route/" + e.Dst)
	case *proto.RouteRemove:
		old, ok := m.Routes[e.Dst]
		if !ok {
			bad("RouteRemove for route %q which does not exist", e.Dst)
		} else if RouteNeedsVTEP(old) && !m.noFlushBoundaries {
			m.flushRouteDelFor[old.DstNodeName] = true
			for _, dst := range m.flushVTEPRemoved[old.DstNodeName] {
				if dst == e.Dst {
					bad("VTEP of node %q was removed before, in the same flush, RouteRemove %q of a route that needed it",
						old.DstNodeName, e.Dst)
				}
			}
		}
		delete(m.Routes, e.Dst)
		m.noteRemoved("route/" + e.Dst)

	case *proto.VXLANTunnelEndpointUpdate:
		if _, had := m.VTEPs[e.Node]; had || len(m.flushVTEPRemoved[e.Node]) > 0 {
			live := len(m.flushVTEPRemoved[e.Node]) > 0
			for _, r := range m.Routes {
				if RouteNeedsVTEP(r) && r.DstNodeName == e.Node {
					live = true
				}
			}
			if live {
				m.NumVTEPModifiedWithLiveRoute++
			}
		}
		m.VTEPs[e.Node] = e
		m.flushVTEPAdded[e.Node] = true
		m.noteAdded("vtep/" + e.Node)
	case *proto.VXLANTunnelEndpointRemove:
		if _, ok := m.VTEPs[e.Node]; !ok {
			bad("VXLANTunnelEndpointRemove for node %q which has no VTEP", e.Node)
		}
		var dsts []string
		for _, dst := range sortedKeys(m.Routes) {
			if r := m.Routes[dst]; !m.noFlushBoundaries && RouteNeedsVTEP(r) && r.DstNodeName == e.Node {
				dsts = append(dsts, dst)
			}
		}
		m.flushVTEPRemoved[e.Node] = append(m.flushVTEPRemoved[e.Node], dsts...)
		delete(m.VTEPs, e.Node)
		m.noteRemoved("vtep/" + e.Node)

	case *proto.HostMetadataUpdate:
		m.Hosts[e.Hostname] = e
	case *proto.HostMetadataRemove:
		if _, ok := m.Hosts[e.Hostname]; !ok {
			bad("HostMetadataRemove for host %q which does not exist", e.Hostname)
		}
		delete(m.Hosts, e.Hostname)
		m.NumRemoves++

	case *proto.IPAMPoolUpdate:
		m.Pools[e.Id] = e.GetPool()
	case *proto.IPAMPoolRemove:
		if _, ok := m.Pools[e.Id]; !ok {
			bad("IPAMPoolRemove for pool %q which does not exist", e.Id)
		}
		delete(m.Pools, e.Id)
		m.NumRemoves++

	case *proto.ServiceAccountUpdate:
		m.SAs[e.GetId().GetNamespace()+"|"+e.GetId().GetName()] = e
	case *proto.ServiceAccountRemove:
		k := e.GetId().GetNamespace() + "|" + e.GetId().GetName()
		if _, ok := m.SAs[k]; !ok {
			bad("ServiceAccountRemove for %q which does not exist", k)
		}
		delete(m.SAs, k)
		m.NumRemoves++
	case *proto.NamespaceUpdate:
		m.Namespaces[e.GetId().GetName()] = e
	case *proto.NamespaceRemove:
		k := e.GetId().GetName()
		if _, ok := m.Namespaces[k]; !ok {
			bad("NamespaceRemove for %q which does not exist", k)
		}
		delete(m.Namespaces, k)
		m.NumRemoves++

	case *proto.WireguardEndpointUpdate:
		m.Wireguard[e.Hostname] = e
	case *proto.WireguardEndpointRemove:
		if _, ok := m.Wireguard[e.Hostname]; !ok {
			bad("WireguardEndpointRemove for %q which does not exist", e.Hostname)
		}
		delete(m.Wireguard, e.Hostname)
		m.NumRemoves++
	case *proto.WireguardEndpointV6Update:
		m.WireguardV[e.Hostname] = e
	case *proto.WireguardEndpointV6Remove:
		if _, ok := m.WireguardV[e.Hostname]; !ok {
			bad("WireguardEndpointV6Remove for %q which does not exist", e.Hostname)
		}
		delete(m.WireguardV, e.Hostname)
		m.NumRemoves++

	case *proto.ServiceUpdate:
		m.Services[e.Namespace+"|"+e.Name] = e
	case *proto.ServiceRemove:
		k := e.Namespace + "|" + e.Name
		if _, ok := m.Services[k]; !ok {
			bad("ServiceRemove for %q which does not exist", k)
		}
		delete(m.Services, k)
		m.NumRemoves++

	case *proto.Encapsulation:
		m.Encap = e
	case *proto.GlobalBGPConfigUpdate:
		m.GlobalBGP = e

	default:
		// ConfigUpdate, *calc.DatastoreNotReady, ...: not part of the folded state.
		m.NumOther++
	}
	if len(errs) > 0 {
		return fmt.Errorf("message #%d %s: %s", m.NumMessages, Describe(msg), strings.Join(errs, "; "))
	}
	return nil
}

// EndFlush must be called by the harness after each EventSequencer.Flush().  It evaluates the
// flush-boundary-aware VTEP rule: a route needing node N's VTEP that was added in this flush
// while N's VTEP was absent is a violation iff N's VTEP is present at the end of the flush (i.e.
// the VTEP add was emitted after the route add).  A route whose VTEP is genuinely missing is
// legal (the dataplane waits for the VTEP).
func (m *Monitor) EndFlush() error {
	defer m.resetFlush()
	relevantAdd, relevantDel := false, false
	for _, ra := range m.flushRouteAdds {
		if m.flushVTEPAdded[ra.node] {
			relevantAdd = true
		}
	}
	for node := range m.flushVTEPRemoved {
		if m.flushRouteDelFor[node] {
			relevantDel = true
		}
	}
	// A VTEP that routes still needed was removed and re-added within this flush: the dataplane saw
	// the referent disappear while referenced although the datastore only modified it.  (The
	// sequencer squashes the resolver's remove+update pair, so this never happens on correct code;
	// a VTEP that is genuinely gone at the end of the flush is legal.)
	for _, node := range sortedKeys(m.flushVTEPRemoved) {
		if dsts := m.flushVTEPRemoved[node]; len(dsts) > 0 {
			if _, back := m.VTEPs[node]; back {
				return fmt.Errorf("VTEP of node %q was removed and re-added within one flush while routes %v needed it", node, dsts)
			}
		}
	}
	if relevantAdd {
		m.NumVTEPRouteAddFlushes++
	}
	if relevantDel {
		m.NumVTEPRouteDelFlushes++
	}
	for _, ra := range m.flushRouteAdds {
		if ra.vtepThere {
			continue
		}
		r, still := m.Routes[ra.dst]
		if !still || !RouteNeedsVTEP(r) || r.DstNodeName != ra.node {
			continue // route changed again later in the flush; judged by its later update
		}
		if _, ok := m.VTEPs[ra.node]; ok {
			return fmt.Errorf("message #%d RouteUpdate %q needs the VTEP of node %q, which was only added later in the same flush",
				ra.seq, ra.dst, ra.node)
		}
	}
	return nil
}

// Describe renders a message compactly for failure output.
func Describe(msg any) string {
	if pm, ok := msg.(googleproto.Message); ok {
		return fmt.Sprintf("%T{%s}", msg, compact(pm))
	}
	return fmt.Sprintf("%T", msg)
}

func compact(pm googleproto.Message) string {
	if pm == nil || !pm.ProtoReflect().IsValid() {
		return "<nil>"
	}
	b, err := prototext.MarshalOptions{Multiline: false}.Marshal(pm)
	if err != nil {
		return "<unmarshallable: " + err.Error() + ">"
	}
	// prototext deliberately randomises spacing between builds; normalise it so that two
	// renderings inside one process (and across processes) compare equal.
	return strings.Join(strings.Fields(string(b)), " ")
}

// Snapshot renders the folded state as a map from a canonical object key
// ("policy/<kind>|<ns>|<name>", "ipset/<id>", "wep/<id>", ...) to a canonical rendering of the
// object.  Two monitors hold the same dataplane state iff their snapshots are equal.
func (m *Monitor) Snapshot() map[string]string {
	out := map[string]string{}
	for id, s := range m.IPSets {
		out["ipset/"+id] = fmt.Sprintf("type=%v members=%v", s.Type, sortedKeys(s.Members))
	}
	for k, v := range m.Policies {
		out["policy/"+k] = compact(v)
	}
	for k, v := range m.Profiles {
		out["profile/"+k] = compact(v)
	}
	for k, v := range m.WEPs {
		out["wep/"+k] = compact(v)
	}
	for k, v := range m.HEPs {
		out["hep/"+k] = compact(v)
	}
	for k, v := range m.Routes {
		out["route/"+k] = compact(v)
	}
	for k, v := range m.VTEPs {
		out["vtep/"+k] = compact(v)
	}
	for k, v := range m.Hosts {
		out["host/"+k] = compact(v)
	}
	for k, v := range m.Pools {
		out["pool/"+k] = compact(v)
	}
	for k, v := range m.SAs {
		out["sa/"+k] = compact(v)
	}
	for k, v := range m.Namespaces {
		out["ns/"+k] = compact(v)
	}
	for k, v := range m.Wireguard {
		out["wg4/"+k] = compact(v)
	}
	for k, v := range m.WireguardV {
		out["wg6/"+k] = compact(v)
	}
	for k, v := range m.Services {
		out["svc/"+k] = compact(v)
	}
	if m.Encap != nil {
		out["encap"] = compact(m.Encap)
	}
	if m.GlobalBGP != nil {
		out["globalbgp"] = compact(m.GlobalBGP)
	}
	return out
}

// DiffSnapshots returns a human-readable, sorted list of differences ("" if equal).
func DiffSnapshots(nameA string, a map[string]string, nameB string, b map[string]string) string {
	keys := map[string]struct{}{}
	for k := range a {
		keys[k] = struct{}{}
	}
	for k := range b {
		keys[k] = struct{}{}
	}
	var sb strings.Builder
	for _, k := range sortedKeys(keys) {
		va, oka := a[k]
		vb, okb := b[k]
		switch {
		case oka && !okb:
			fmt.Fprintf(&sb, "  %s: only in %s: %s\n", k, nameA, va)
		case !oka && okb:
			fmt.Fprintf(&sb, "  %s: only in %s: %s\n", k, nameB, vb)
		case va != vb:
			fmt.Fprintf(&sb, "  %s differs:\n    %s: %s\n    %s: %s\n", k, nameA, va, nameB, vb)
		}
	}
	return sb.String()
}
