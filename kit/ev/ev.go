// Package ev is the evidence recorder shared by every /verif harness.
//
// A harness creates one Recorder per test function, calls Case() once per generated case
// (from inside the rapid property, at the end of the case, when it knows whether the case
// was non-trivial), and calls Write() when the test function ends.  The recorder writes a
// "stats" JSON file to $VERIF_STATS_DIR/<id>-<unit>-<shard>.json; the /verif/check driver
// merges the stats files of all units/shards into /verif/evidence/<id>.json.
//
// Nothing here is a constant: every number in the file is counted on this run.
package ev

import (
	"encoding/json"
	"fmt"
	"hash/fnv"
	"io"
	"os"
	"path/filepath"
	"sort"
	"strconv"
	"sync"

	"github.com/sirupsen/logrus"
)

const maxKeysKept = 200000

type Recorder struct {
	mu          sync.Mutex
	ID          string
	Unit        string
	rule        string
	assumptions []string

	evaluations int64
	nontrivial  int64
	keys        map[uint64]struct{}
	classes     map[string]int64
	samples     []any
	largest     any
	largestSize int
	extra       map[string]any
	knownHits   map[string]int64
	excluded    int64
}

// Quiet silences logrus; the Felix test packages leave it at DEBUG which costs 30x.
func Quiet() {
	logrus.SetLevel(logrus.PanicLevel)
	logrus.SetOutput(io.Discard)
}

func New(id, unit, rule string, assumptions ...string) *Recorder {
	return &Recorder{
		ID: id, Unit: unit, rule: rule, assumptions: assumptions,
		keys:      map[uint64]struct{}{},
		classes:   map[string]int64{},
		extra:     map[string]any{},
		knownHits: map[string]int64{},
	}
}

func hashKey(s string) uint64 {
	h := fnv.New64a()
	_, _ = h.Write([]byte(s))
	return h.Sum64()
}

// Case records one executed case.  shapeKey identifies the case's shape (distinct
// non-trivial cases are counted by distinct shapeKey); sample is only called for the first
// few non-trivial cases and for new "largest" cases (size = len(shapeKey) unless SizedCase
// is used).
func (r *Recorder) Case(nontrivial bool, shapeKey string, sample func() any, classes ...string) {
	r.SizedCase(nontrivial, shapeKey, len(shapeKey), sample, classes...)
}

func (r *Recorder) SizedCase(nontrivial bool, shapeKey string, size int, sample func() any, classes ...string) {
	r.mu.Lock()
	defer r.mu.Unlock()
	r.evaluations++
	for _, c := range classes {
		r.classes[c]++
	}
	if !nontrivial {
		return
	}
	r.nontrivial++
	k := hashKey(shapeKey)
	_, seen := r.keys[k]
	if !seen && len(r.keys) < maxKeysKept {
		r.keys[k] = struct{}{}
	}
	if sample == nil {
		return
	}
	if !seen && len(r.samples) < 3 {
		r.samples = append(r.samples, sample())
	} else if size > r.largestSize {
		r.largest = sample()
	}
	if size > r.largestSize {
		r.largestSize = size
	}
}

// Class bumps a histogram class without counting a case.
func (r *Recorder) Class(c string, n int64) {
	r.mu.Lock()
	defer r.mu.Unlock()
	r.classes[c] += n
}

// Extra stores an additional coverage key (e.g. exhaustive:true).
func (r *Recorder) Extra(k string, v any) {
	r.mu.Lock()
	defer r.mu.Unlock()
	r.extra[k] = v
}

// Excluded counts a generated case that was steered away from a known finding.
func (r *Recorder) Excluded(signature string) {
	r.mu.Lock()
	defer r.mu.Unlock()
	r.excluded++
	r.knownHits[signature]++
}

type Stats struct {
	ID          string           `json:"property_id"`
	Unit        string           `json:"unit"`
	Shard       int              `json:"shard"`
	Seed        int64            `json:"seed"`
	Rule        string           `json:"rule"`
	Assumptions []string         `json:"assumptions"`
	Evaluations int64            `json:"evaluations"`
	Nontrivial  int64            `json:"nontrivial"`
	Keys        []string         `json:"keys"`
	KeysCapped  bool             `json:"keys_capped"`
	Classes     map[string]int64 `json:"classes"`
	Samples     []any            `json:"samples"`
	Extra       map[string]any   `json:"extra"`
	Excluded    int64            `json:"excluded_known"`
	KnownHits   map[string]int64 `json:"known_hits"`
}

// Write dumps the stats file.  Safe to call when VERIF_STATS_DIR is unset (no-op).
func (r *Recorder) Write() {
	dir := os.Getenv("VERIF_STATS_DIR")
	if dir == "" {
		return
	}
	r.mu.Lock()
	defer r.mu.Unlock()
	shard, _ := strconv.Atoi(os.Getenv("VERIF_SHARD"))
	seed, _ := strconv.ParseInt(os.Getenv("VERIF_RAPID_SEED"), 10, 64)
	keys := make([]string, 0, len(r.keys))
	for k := range r.keys {
		keys = append(keys, strconv.FormatUint(k, 36))
	}
	sort.Strings(keys)
	samples := append([]any{}, r.samples...)
	if r.largest != nil {
		samples = append(samples, r.largest)
	}
	st := Stats{
		ID: r.ID, Unit: r.Unit, Shard: shard, Seed: seed, Rule: r.rule, Assumptions: r.assumptions,
		Evaluations: r.evaluations, Nontrivial: r.nontrivial, Keys: keys,
		KeysCapped: len(r.keys) >= maxKeysKept,
		Classes:    r.classes, Samples: samples, Extra: r.extra,
		Excluded: r.excluded, KnownHits: r.knownHits,
	}
	b, err := json.MarshalIndent(st, "", " ")
	if err != nil {
		// A sample that cannot be marshalled must not lose the counts.
		st.Samples = []any{fmt.Sprintf("unmarshallable samples: %v", err)}
		b, _ = json.MarshalIndent(st, "", " ")
	}
	_ = os.MkdirAll(dir, 0o755)
	name := fmt.Sprintf("%s-%s-%d.json", r.ID, r.Unit, shard)
	_ = os.WriteFile(filepath.Join(dir, name), b, 0o644)
}

// Known reports whether signature is listed (for this property) in the known-findings list
// the driver passes in $VERIF_KNOWN (comma separated signatures).
func Known(signature string) bool {
	for _, s := range splitComma(os.Getenv("VERIF_KNOWN")) {
		if s == signature {
			return true
		}
	}
	return false
}

func splitComma(s string) []string {
	var out []string
	cur := ""
	for _, c := range s {
		if c == ',' {
			if cur != "" {
				out = append(out, cur)
			}
			cur = ""
			continue
		}
		cur += string(c)
	}
	if cur != "" {
		out = append(out, cur)
	}
	return out
}

// Thorough reports whether the driver asked for the thorough tier.
func Thorough() bool { return os.Getenv("VERIF_TIER") == "thorough" }

// Scale returns q in the quick tier and t in the thorough tier (for generated sizes).
func Scale(q, t int) int {
	if Thorough() {
		return t
	}
	return q
}
