package bpfvm

import (
	"encoding/binary"
	"fmt"
	"sort"

	"github.com/projectcalico/calico/felix/bpf/asm"
)

// Map is anything a program can reference through LD_IMM64 with the map-fd pseudo source.
type Map interface {
	Name() string
}

// LookupMap is a map that supports bpf_map_lookup_elem from a program.  Lookup returns the
// value's backing storage (writes through the returned pointer are visible to later lookups), or
// nil for a miss.
type LookupMap interface {
	Map
	KeySize() int
	Lookup(key []byte) []byte
}

// ---------------------------------------------------------------------------------------------

// ArrayMap models BPF_MAP_TYPE_ARRAY / PERCPU_ARRAY (one CPU): u32 index keys, fixed-size values,
// every index below MaxEntries exists and is zero-initialised.
type ArrayMap struct {
	name      string
	valueSize int
	values    [][]byte
}

func NewArrayMap(name string, valueSize, maxEntries int) *ArrayMap {
	a := &ArrayMap{name: name, valueSize: valueSize}
	for i := 0; i < maxEntries; i++ {
		a.values = append(a.values, make([]byte, valueSize))
	}
	return a
}

func (a *ArrayMap) Name() string { return a.name }
func (a *ArrayMap) KeySize() int { return 4 }
func (a *ArrayMap) Lookup(key []byte) []byte {
	idx := binary.LittleEndian.Uint32(key)
	if int(idx) >= len(a.values) {
		return nil
	}
	return a.values[idx]
}

// Set overwrites the value at idx (shorter data is zero-padded to the value size).
func (a *ArrayMap) Set(idx int, data []byte) {
	if len(data) > a.valueSize {
		panic(fmt.Sprintf("bpfvm: value of %d bytes does not fit map %s (value size %d)", len(data), a.name, a.valueSize))
	}
	v := a.values[idx]
	for i := range v {
		v[i] = 0
	}
	copy(v, data)
}

// Get returns a copy of the value at idx.
func (a *ArrayMap) Get(idx int) []byte {
	out := make([]byte, a.valueSize)
	copy(out, a.values[idx])
	return out
}

// ---------------------------------------------------------------------------------------------

// LPMTrie models BPF_MAP_TYPE_LPM_TRIE: keys are {u32 prefixlen (host endian); u8 data[keySize-4]}.
// A lookup returns the value of the entry with the longest prefixlen such that
// entry.prefixlen <= key.prefixlen and the first entry.prefixlen bits of data (bytes in order,
// most significant bit first) are equal.  The implementation is a plain scan.
type LPMTrie struct {
	name      string
	keySize   int
	valueSize int
	entries   []lpmEntry
}

type lpmEntry struct {
	prefix uint32
	data   []byte
	value  []byte
}

func NewLPMTrie(name string, keySize, valueSize int) *LPMTrie {
	return &LPMTrie{name: name, keySize: keySize, valueSize: valueSize}
}

func (t *LPMTrie) Name() string { return t.name }
func (t *LPMTrie) KeySize() int { return t.keySize }
func (t *LPMTrie) Len() int     { return len(t.entries) }

// Update inserts or replaces the entry with exactly this key (as the kernel's map update).
// It returns an error for keys the kernel would reject (wrong size, prefixlen > data bits).
func (t *LPMTrie) Update(key, value []byte) error {
	if len(key) != t.keySize {
		return fmt.Errorf("lpm %s: key size %d != %d", t.name, len(key), t.keySize)
	}
	if len(value) != t.valueSize {
		return fmt.Errorf("lpm %s: value size %d != %d", t.name, len(value), t.valueSize)
	}
	prefix := binary.LittleEndian.Uint32(key[:4])
	if int(prefix) > (t.keySize-4)*8 {
		return fmt.Errorf("lpm %s: prefixlen %d > %d data bits", t.name, prefix, (t.keySize-4)*8)
	}
	data := append([]byte(nil), key[4:]...)
	// Bits beyond the prefix are ignored by the kernel when matching; normalise them away.
	maskTail(data, prefix)
	for i := range t.entries {
		if t.entries[i].prefix == prefix && string(t.entries[i].data) == string(data) {
			t.entries[i].value = append([]byte(nil), value...)
			return nil
		}
	}
	t.entries = append(t.entries, lpmEntry{prefix: prefix, data: data, value: append([]byte(nil), value...)})
	return nil
}

func maskTail(data []byte, prefix uint32) {
	full := int(prefix / 8)
	rem := prefix % 8
	if full < len(data) {
		if rem != 0 {
			data[full] &= byte(0xff << (8 - rem))
			full++
		}
		for i := full; i < len(data); i++ {
			data[i] = 0
		}
	}
}

func prefixMatches(entry []byte, prefix uint32, key []byte) bool {
	full := int(prefix / 8)
	for i := 0; i < full; i++ {
		if entry[i] != key[i] {
			return false
		}
	}
	if rem := prefix % 8; rem != 0 {
		mask := byte(0xff << (8 - rem))
		if entry[full]&mask != key[full]&mask {
			return false
		}
	}
	return true
}

func (t *LPMTrie) Lookup(key []byte) []byte {
	if len(key) != t.keySize {
		return nil
	}
	kp := binary.LittleEndian.Uint32(key[:4])
	if int(kp) > (t.keySize-4)*8 {
		return nil // the kernel returns NULL for an over-long prefixlen
	}
	best := -1
	for i := range t.entries {
		e := &t.entries[i]
		if e.prefix > kp {
			continue
		}
		if !prefixMatches(e.data, e.prefix, key[4:]) {
			continue
		}
		if best < 0 || e.prefix > t.entries[best].prefix {
			best = i
		}
	}
	if best < 0 {
		return nil
	}
	return t.entries[best].value
}

// Keys returns the stored keys in a deterministic order (for diagnostics).
func (t *LPMTrie) Keys() [][]byte {
	var out [][]byte
	for _, e := range t.entries {
		k := make([]byte, 4, t.keySize)
		binary.LittleEndian.PutUint32(k, e.prefix)
		out = append(out, append(k, e.data...))
	}
	sort.Slice(out, func(i, j int) bool { return string(out[i]) < string(out[j]) })
	return out
}

// ---------------------------------------------------------------------------------------------

// HashMap models BPF_MAP_TYPE_HASH with exact-match byte keys (not used by polprog; provided for
// other generated programs).
type HashMap struct {
	name      string
	keySize   int
	valueSize int
	m         map[string][]byte
}

func NewHashMap(name string, keySize, valueSize int) *HashMap {
	return &HashMap{name: name, keySize: keySize, valueSize: valueSize, m: map[string][]byte{}}
}
func (h *HashMap) Name() string { return h.name }
func (h *HashMap) KeySize() int { return h.keySize }
func (h *HashMap) Lookup(key []byte) []byte {
	return h.m[string(key)]
}
func (h *HashMap) Update(key, value []byte) error {
	if len(key) != h.keySize || len(value) != h.valueSize {
		return fmt.Errorf("hash %s: bad key/value size", h.name)
	}
	h.m[string(key)] = append([]byte(nil), value...)
	return nil
}

// ---------------------------------------------------------------------------------------------

// ProgArray models BPF_MAP_TYPE_PROG_ARRAY.  Slots hold either a *Stub (terminal: the run ends
// there, e.g. the "allowed"/"drop" programs of the static jump map) or a *SubProgram (execution
// continues there with a fresh stack and R1=ctx, e.g. the policy jump map).
type ProgArray struct {
	name  string
	max   uint32
	slots map[uint32]any
}

// Stub is a terminal tail-call target.
type Stub struct {
	Name string
	RC   uint64 // return code reported in Result.R0
}

// SubProgram is a tail-call target that is executed.
type SubProgram struct {
	Name  string
	Insns asm.Insns
}

func NewProgArray(name string, maxEntries int) *ProgArray {
	return &ProgArray{name: name, max: uint32(maxEntries), slots: map[uint32]any{}}
}

func (p *ProgArray) Name() string { return p.name }

func (p *ProgArray) SetStub(idx int, s *Stub) error {
	if idx < 0 || uint32(idx) >= p.max {
		return fmt.Errorf("prog array %s: index %d out of range (max %d)", p.name, idx, p.max)
	}
	p.slots[uint32(idx)] = s
	return nil
}

func (p *ProgArray) SetProgram(idx int, sp *SubProgram) error {
	if idx < 0 || uint32(idx) >= p.max {
		return fmt.Errorf("prog array %s: index %d out of range (max %d)", p.name, idx, p.max)
	}
	p.slots[uint32(idx)] = sp
	return nil
}

func (p *ProgArray) Delete(idx int) { delete(p.slots, uint32(idx)) }

// Get returns the slot content (nil when empty or out of range).
func (p *ProgArray) Get(idx uint32) any {
	if idx >= p.max {
		return nil
	}
	s, ok := p.slots[idx]
	if !ok {
		return nil
	}
	return s
}
