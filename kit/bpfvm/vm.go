// Package bpfvm is a small, strict eBPF interpreter for programs given as
// felix/bpf/asm.Insns (as assembled by felix/bpf/polprog and felix/bpf/asm).
//
// It stands in for the kernel (verifier + runtime) in the offline checks:
//
//   - Verify() does the kernel's static CFG checks: known opcodes, jump targets in range and
//     not into the second half of LD_IMM64, no unreachable instructions, no falling off the end.
//   - Run() executes one program on concrete inputs with *typed* registers (scalar / pointer to
//     ctx, stack, map value / map handle), byte-precise bounds checks, initialised-register and
//     initialised-stack tracking, NULL-check tracking for map_lookup_elem results and argument
//     checks for the helpers it knows.  Anything the kernel verifier would reject on the executed
//     path (and anything this interpreter does not know) is reported as *InvalidProgramError.
//
// Tail calls into a ProgArray continue execution in the target program when the slot holds a
// SubProgram and end the run when the slot holds a Stub (e.g. the "allowed"/"drop" programs).
// A tail call to an empty slot fails and falls through, as in the kernel, and is recorded in
// Result.FailedTailCalls.
//
// The interpreter is deliberately independent of the code under test: it only uses the
// instruction encoding (asm.Insn accessors and opcode constants).
package bpfvm

import (
	"encoding/binary"
	"fmt"
	"math/bits"

	"github.com/projectcalico/calico/felix/bpf/asm"
)

// InvalidProgramError: the program did something the kernel verifier/runtime would not accept
// (or something this interpreter does not model).
type InvalidProgramError struct {
	Prog   int    // index in the tail-call chain (0 = entry program)
	PC     int    // instruction index, -1 for whole-program errors
	Insn   string // decoded instruction
	Reason string
}

func (e *InvalidProgramError) Error() string {
	return fmt.Sprintf("program invalid: chain#%d pc=%d [%s]: %s", e.Prog, e.PC, e.Insn, e.Reason)
}

// ---------------------------------------------------------------------------------------------
// Values

type valKind uint8

const (
	kUninit valKind = iota
	kScalar
	kPtrCtx
	kPtrStack
	kPtrMapValue
	kMapHandle
)

func (k valKind) String() string {
	return [...]string{"uninit", "scalar", "ctx-ptr", "stack-ptr", "map-value-ptr", "map-handle"}[k]
}

type region struct {
	name     string
	data     []byte
	writable func(off, size int) bool // nil = fully writable
}

type value struct {
	kind valKind
	v    uint64  // scalar value, or byte offset (signed, as int64) for pointers
	reg  *region // for pointers to ctx / map value
	m    Map     // for map handles
	// maybeNull: result of map_lookup_elem that has not been compared with 0 yet; nullID groups
	// copies of the same lookup result (the verifier propagates the check through copies).
	maybeNull bool
	nullID    int
}

const stackSize = 512

// ---------------------------------------------------------------------------------------------
// VM

// CtxKind selects the access rules for the context pointer passed in R1.
type CtxKind int

const (
	// CtxSkb: struct __sk_buff; reads anywhere inside, writes only to cb[0..4] (offsets 48..67).
	CtxSkb CtxKind = iota
	// CtxXDP: struct xdp_md; read-only.
	CtxXDP
)

const (
	SkbSize    = 192 // sizeof(struct __sk_buff) is 192 on current kernels
	XDPMDSize  = 24  // sizeof(struct xdp_md)
	SkbCbStart = 48
	SkbCbEnd   = 68
)

type VM struct {
	maps map[uint32]Map
	// Ctx is the context memory (use NewSkbCtx / NewXDPCtx).
	Ctx     []byte
	CtxKind CtxKind
	// StepBudget bounds the number of executed instructions over the whole tail-call chain
	// (default 1,000,000 — the kernel's complexity limit is on verified, not executed, insns).
	StepBudget int
	// MaxTailCalls: the kernel allows 33 chained tail calls (MAX_TAIL_CALL_CNT); exceeding it makes
	// the tail call fail.  Default 33.  Harnesses that force artificially small programs raise it.
	MaxTailCalls int
	// KtimeNs is returned by helper 5.
	KtimeNs uint64
	// SkipVerify disables the static CFG check in Run (it is cached per program otherwise).
	SkipVerify bool
}

func New() *VM {
	return &VM{maps: map[uint32]Map{}, StepBudget: 1_000_000, MaxTailCalls: 33,
		Ctx: make([]byte, SkbSize), CtxKind: CtxSkb}
}

// AddMap registers a map under the "file descriptor" the program will load with LD_IMM64 (src=1).
func (vm *VM) AddMap(fd uint32, m Map) { vm.maps[fd] = m }

// SetSkbCtx installs a zeroed __sk_buff with cb[0], cb[1] set (polprog reads the allow/deny
// jump indexes from there when WithAllowDenyJumps is not used).
func (vm *VM) SetSkbCtx(cb0, cb1 uint32) {
	vm.Ctx = make([]byte, SkbSize)
	vm.CtxKind = CtxSkb
	binary.LittleEndian.PutUint32(vm.Ctx[SkbCbStart:], cb0)
	binary.LittleEndian.PutUint32(vm.Ctx[SkbCbStart+4:], cb1)
}

// SetXDPCtx installs a zeroed xdp_md.
func (vm *VM) SetXDPCtx() {
	vm.Ctx = make([]byte, XDPMDSize)
	vm.CtxKind = CtxXDP
}

// ExitKind says how the run ended.
type ExitKind int

const (
	// ExitReturn: an `exit` instruction was executed; R0 is the program's return code.
	ExitReturn ExitKind = iota
	// ExitTailCall: a tail call entered a Stub slot of a ProgArray (e.g. the allow or drop program).
	ExitTailCall
)

// TailCall identifies one bpf_tail_call invocation.
type TailCall struct {
	MapFD uint32
	Map   string // ProgArray name
	Index uint32
	PC    int
	Prog  int // position in the chain of the calling program
}

type Result struct {
	Exit ExitKind
	// R0 at exit (ExitReturn), or the Stub's return code (ExitTailCall).
	R0 uint64
	// Final is the tail call that ended the program (ExitTailCall only); Stub is its slot.
	Final TailCall
	Stub  *Stub
	// Chain lists the successful tail calls into SubPrograms, in order (len = number of
	// sub-programs entered after the entry program).
	Chain []TailCall
	// FailedTailCalls lists tail calls that hit an empty slot / index out of range / the tail-call
	// limit and therefore fell through.
	FailedTailCalls []TailCall
	Steps           int
}

type progCacheKey struct {
	p *asm.Insn
	n int
}

var verified = map[progCacheKey]error{}

// Verify runs the static checks on one program.
func Verify(prog asm.Insns) error {
	n := len(prog)
	if n == 0 {
		return &InvalidProgramError{PC: -1, Reason: "empty program"}
	}
	if n > 1_000_000 {
		return &InvalidProgramError{PC: -1, Reason: fmt.Sprintf("program too large: %d insns", n)}
	}
	second := make([]bool, n) // second half of LD_IMM64
	for pc := 0; pc < n; pc++ {
		in := prog[pc]
		if err := checkOpcode(in); err != "" {
			return &InvalidProgramError{PC: pc, Insn: in.String(), Reason: err}
		}
		if in.OpCode() == asm.LoadImm64 {
			if pc+1 >= n {
				return &InvalidProgramError{PC: pc, Insn: in.String(), Reason: "LD_IMM64 without second half"}
			}
			nx := prog[pc+1]
			if nx.OpCode() != 0 || nx.Instruction[1] != 0 || nx.Off() != 0 {
				return &InvalidProgramError{PC: pc, Insn: in.String(), Reason: "malformed second half of LD_IMM64"}
			}
			second[pc+1] = true
			pc++
		}
	}
	// CFG reachability (the kernel's check_cfg): every instruction must be reachable.
	seen := make([]bool, n)
	stack := []int{0}
	push := func(from, to int) error {
		if to < 0 || to >= n {
			return &InvalidProgramError{PC: from, Insn: prog[from].String(), Reason: fmt.Sprintf("jump out of range to %d", to)}
		}
		if second[to] {
			return &InvalidProgramError{PC: from, Insn: prog[from].String(), Reason: "jump into the middle of LD_IMM64"}
		}
		if !seen[to] {
			seen[to] = true
			stack = append(stack, to)
		}
		return nil
	}
	seen[0] = true
	for len(stack) > 0 {
		pc := stack[len(stack)-1]
		stack = stack[:len(stack)-1]
		in := prog[pc]
		op := in.OpCode()
		cls := op & asm.OpClassMask
		switch {
		case op == asm.LoadImm64:
			seen[pc+1] = true
			if pc+2 >= n {
				return &InvalidProgramError{PC: pc, Insn: in.String(), Reason: "falls off the end of the program"}
			}
			if err := push(pc, pc+2); err != nil {
				return err
			}
		case op == asm.Exit:
		case op == asm.JumpA:
			if err := push(pc, pc+1+int(in.Off())); err != nil {
				return err
			}
		case op == asm.Call:
			if pc+1 >= n {
				return &InvalidProgramError{PC: pc, Insn: in.String(), Reason: "falls off the end of the program"}
			}
			if err := push(pc, pc+1); err != nil {
				return err
			}
		case cls == asm.OpClassJump64 || cls == asm.OpClassJump32:
			if err := push(pc, pc+1+int(in.Off())); err != nil {
				return err
			}
			if pc+1 >= n {
				return &InvalidProgramError{PC: pc, Insn: in.String(), Reason: "falls off the end of the program"}
			}
			if err := push(pc, pc+1); err != nil {
				return err
			}
		default:
			if pc+1 >= n {
				return &InvalidProgramError{PC: pc, Insn: in.String(), Reason: "falls off the end of the program"}
			}
			if err := push(pc, pc+1); err != nil {
				return err
			}
		}
	}
	for pc := 0; pc < n; pc++ {
		if !seen[pc] {
			return &InvalidProgramError{PC: pc, Insn: prog[pc].String(), Reason: "unreachable instruction"}
		}
	}
	return nil
}

func checkOpcode(in asm.Insn) string {
	op := uint8(in.OpCode())
	cls := op & 7
	if in.Dst() > 10 || in.Src() > 10 {
		return "invalid register number"
	}
	switch cls {
	case asm.OpClassLoadImm:
		if asm.OpCode(op) != asm.LoadImm64 {
			// second halves are skipped by the caller; anything else in class LD is legacy/unsupported
			return fmt.Sprintf("unsupported LD opcode %#x", op)
		}
		if in.Src() != 0 && in.Src() != asm.RPseudoMapFD {
			return fmt.Sprintf("unsupported LD_IMM64 pseudo source %d", in.Src())
		}
	case asm.OpClassLoadReg, asm.OpClassStoreReg, asm.OpClassStoreImm:
		if op&0xe0 != asm.MemOpModeMem {
			return fmt.Sprintf("unsupported memory mode in opcode %#x", op)
		}
	case asm.OpClassALU32, asm.OpClassALU64:
		aop := op & 0xf0
		if aop > asm.ALUOpEndian {
			return fmt.Sprintf("unknown ALU opcode %#x", op)
		}
		if aop == asm.ALUOpEndian {
			if in.Imm() != 16 && in.Imm() != 32 && in.Imm() != 64 {
				return "endianness op with bad width"
			}
		}
		if aop == asm.ALUOpNegate && op&asm.ALUSrcReg != 0 {
			// BPF_NEG with BPF_X is reserved in the kernel; felix's asm never emits it.
			return "BPF_NEG with register source"
		}
		if op&asm.ALUSrcReg == 0 && (aop == asm.ALUOpDiv || aop == asm.ALUOpMod) && in.Imm() == 0 {
			return "division by zero immediate"
		}
		if op&asm.ALUSrcReg == 0 && (aop == asm.ALUOpShiftL || aop == asm.ALUOpShiftR || aop == asm.ALUOpAShiftR) {
			w := int32(64)
			if cls == asm.OpClassALU32 {
				w = 32
			}
			if in.Imm() < 0 || in.Imm() >= w {
				return "invalid shift immediate"
			}
		}
	case asm.OpClassJump64:
		jop := op & 0xf0
		if jop > asm.JumpOpSLE {
			return fmt.Sprintf("unknown JMP opcode %#x", op)
		}
		if (jop == asm.JumpOpCall || jop == asm.JumpOpExit || jop == asm.JumpOpA) && op&asm.ALUSrcReg != 0 {
			return fmt.Sprintf("unsupported JMP opcode %#x", op)
		}
		if jop == asm.JumpOpCall && in.Src() != 0 {
			return "bpf-to-bpf / kfunc calls are not supported"
		}
	case asm.OpClassJump32:
		jop := op & 0xf0
		if jop > asm.JumpOpSLE || jop == asm.JumpOpCall || jop == asm.JumpOpExit || jop == asm.JumpOpA {
			return fmt.Sprintf("unknown JMP32 opcode %#x", op)
		}
	}
	return ""
}

type machine struct {
	vm        *VM
	regs      [11]value
	stack     [stackSize]byte
	stackInit [stackSize]bool
	spills    map[int]value // 8-aligned stack offset (0..504) -> spilled non-scalar value
	nextNull  int
	chainPos  int
	steps     int
	tailCalls int
	res       *Result
}

func (m *machine) fail(pc int, in asm.Insn, format string, args ...any) error {
	return &InvalidProgramError{Prog: m.chainPos, PC: pc, Insn: in.String(), Reason: fmt.Sprintf(format, args...)}
}

func (m *machine) resetForProgram() {
	for i := range m.regs {
		m.regs[i] = value{}
	}
	m.regs[1] = value{kind: kPtrCtx, reg: m.ctxRegion()}
	m.regs[10] = value{kind: kPtrStack, v: stackSize}
	// A tail-called program gets a fresh stack frame.
	m.stack = [stackSize]byte{}
	m.stackInit = [stackSize]bool{}
	m.spills = map[int]value{}
}

func (m *machine) ctxRegion() *region {
	vm := m.vm
	r := &region{name: "ctx", data: vm.Ctx}
	switch vm.CtxKind {
	case CtxSkb:
		r.writable = func(off, size int) bool { return off >= SkbCbStart && off+size <= SkbCbEnd }
	default:
		r.writable = func(off, size int) bool { return false }
	}
	return r
}

// Run executes prog (the entry program) until exit or a terminal tail call.
func (vm *VM) Run(prog asm.Insns) (Result, error) {
	res := Result{}
	m := &machine{vm: vm, res: &res}
	cur := prog
	for {
		if !vm.SkipVerify {
			if err := verifyCached(cur); err != nil {
				if ipe, ok := err.(*InvalidProgramError); ok {
					cp := *ipe
					cp.Prog = m.chainPos
					return res, &cp
				}
				return res, err
			}
		}
		m.resetForProgram()
		next, err := m.exec(cur)
		res.Steps = m.steps
		if err != nil {
			return res, err
		}
		if next == nil {
			return res, nil
		}
		cur = next
		m.chainPos++
	}
}

func verifyCached(p asm.Insns) error {
	if len(p) == 0 {
		return Verify(p)
	}
	k := progCacheKey{&p[0], len(p)}
	if err, ok := verified[k]; ok {
		return err
	}
	if len(verified) >= 64 {
		verified = map[progCacheKey]error{}
	}
	err := Verify(p)
	verified[k] = err
	return err
}

func sizeOf(op uint8) int {
	switch op & 0x18 {
	case asm.MemOpSize8:
		return 1
	case asm.MemOpSize16:
		return 2
	case asm.MemOpSize32:
		return 4
	default:
		return 8
	}
}

// exec runs one program; returns the next program to run (tail call into a SubProgram) or nil.
func (m *machine) exec(prog asm.Insns) (asm.Insns, error) {
	pc := 0
	n := len(prog)
	for {
		if pc < 0 || pc >= n {
			return nil, &InvalidProgramError{Prog: m.chainPos, PC: pc, Reason: "program counter out of range"}
		}
		in := prog[pc]
		m.steps++
		if m.steps > m.vm.StepBudget {
			return nil, m.fail(pc, in, "step budget of %d instructions exceeded", m.vm.StepBudget)
		}
		op := uint8(in.OpCode())
		cls := op & 7
		dst, src := int(in.Dst()), int(in.Src())
		switch cls {
		case asm.OpClassLoadImm:
			if asm.OpCode(op) != asm.LoadImm64 || pc+1 >= n {
				return nil, m.fail(pc, in, "bad LD instruction")
			}
			if dst == 10 {
				return nil, m.fail(pc, in, "write to frame pointer R10")
			}
			hi := prog[pc+1].Imm()
			if src == asm.RPseudoMapFD {
				fd := uint32(in.Imm())
				mp, ok := m.vm.maps[fd]
				if !ok || hi != 0 {
					return nil, m.fail(pc, in, "LD_IMM64 of unknown map fd %d", fd)
				}
				m.regs[dst] = value{kind: kMapHandle, m: mp, v: uint64(fd)}
			} else {
				m.regs[dst] = value{kind: kScalar, v: uint64(uint32(in.Imm())) | uint64(uint32(hi))<<32}
			}
			pc += 2
			continue

		case asm.OpClassLoadReg:
			if dst == 10 {
				return nil, m.fail(pc, in, "write to frame pointer R10")
			}
			size := sizeOf(op)
			v, err := m.load(pc, in, m.regs[src], int64(in.Off()), size, src)
			if err != nil {
				return nil, err
			}
			m.regs[dst] = v

		case asm.OpClassStoreReg, asm.OpClassStoreImm:
			size := sizeOf(op)
			var val value
			if cls == asm.OpClassStoreReg {
				val = m.regs[src]
				if val.kind == kUninit {
					return nil, m.fail(pc, in, "store of uninitialised register R%d", src)
				}
			} else {
				val = value{kind: kScalar, v: uint64(int64(in.Imm()))}
			}
			if err := m.store(pc, in, m.regs[dst], int64(in.Off()), size, val, dst); err != nil {
				return nil, err
			}

		case asm.OpClassALU32, asm.OpClassALU64:
			if err := m.alu(pc, in, cls == asm.OpClassALU64); err != nil {
				return nil, err
			}

		case asm.OpClassJump64, asm.OpClassJump32:
			jop := op & 0xf0
			if cls == asm.OpClassJump64 {
				switch jop {
				case asm.JumpOpA:
					pc += 1 + int(in.Off())
					continue
				case asm.JumpOpExit:
					if m.regs[0].kind == kUninit {
						return nil, m.fail(pc, in, "exit with uninitialised R0")
					}
					if m.regs[0].kind != kScalar {
						return nil, m.fail(pc, in, "exit with a pointer in R0 (leaks a %s)", m.regs[0].kind)
					}
					m.res.Exit = ExitReturn
					m.res.R0 = m.regs[0].v
					return nil, nil
				case asm.JumpOpCall:
					next, done, err := m.call(pc, in)
					if err != nil {
						return nil, err
					}
					if done {
						return next, nil
					}
					pc++
					continue
				}
			}
			taken, err := m.cond(pc, in, jop, cls == asm.OpClassJump64)
			if err != nil {
				return nil, err
			}
			if taken {
				pc += 1 + int(in.Off())
				continue
			}
		default:
			return nil, m.fail(pc, in, "unknown instruction class")
		}
		pc++
	}
}

func (m *machine) resolve(pc int, in asm.Insn, p value, off int64, size int, regNo int, write bool) (mem []byte, stackOff int, isStack bool, err error) {
	switch p.kind {
	case kUninit:
		return nil, 0, false, m.fail(pc, in, "memory access through uninitialised register R%d", regNo)
	case kScalar:
		return nil, 0, false, m.fail(pc, in, "memory access through scalar R%d=%#x (NULL/invalid pointer dereference)", regNo, p.v)
	case kMapHandle:
		return nil, 0, false, m.fail(pc, in, "memory access through map handle in R%d", regNo)
	}
	if p.maybeNull {
		return nil, 0, false, m.fail(pc, in, "R%d is a map_lookup_elem result that was not NULL-checked before dereference", regNo)
	}
	o := int64(p.v) + off
	switch p.kind {
	case kPtrStack:
		if o < 0 || o+int64(size) > stackSize {
			return nil, 0, false, m.fail(pc, in, "stack access out of bounds: fp%+d size %d", o-stackSize, size)
		}
		if o%int64(size) != 0 {
			return nil, 0, false, m.fail(pc, in, "misaligned stack access: fp%+d size %d", o-stackSize, size)
		}
		return m.stack[o : o+int64(size)], int(o), true, nil
	default:
		r := p.reg
		if o < 0 || o+int64(size) > int64(len(r.data)) {
			return nil, 0, false, m.fail(pc, in, "%s access out of bounds: off %d size %d (region size %d)", r.name, o, size, len(r.data))
		}
		if write && r.writable != nil && !r.writable(int(o), size) {
			return nil, 0, false, m.fail(pc, in, "write to read-only part of %s: off %d size %d", r.name, o, size)
		}
		return r.data[o : o+int64(size)], 0, false, nil
	}
}

func readLE(b []byte) uint64 {
	switch len(b) {
	case 1:
		return uint64(b[0])
	case 2:
		return uint64(binary.LittleEndian.Uint16(b))
	case 4:
		return uint64(binary.LittleEndian.Uint32(b))
	default:
		return binary.LittleEndian.Uint64(b)
	}
}

func writeLE(b []byte, v uint64) {
	switch len(b) {
	case 1:
		b[0] = byte(v)
	case 2:
		binary.LittleEndian.PutUint16(b, uint16(v))
	case 4:
		binary.LittleEndian.PutUint32(b, uint32(v))
	default:
		binary.LittleEndian.PutUint64(b, v)
	}
}

func (m *machine) load(pc int, in asm.Insn, p value, off int64, size int, regNo int) (value, error) {
	mem, so, isStack, err := m.resolve(pc, in, p, off, size, regNo, false)
	if err != nil {
		return value{}, err
	}
	if isStack {
		if size == 8 {
			if sp, ok := m.spills[so]; ok {
				return sp, nil
			}
		}
		if _, ok := m.spills[so&^7]; ok {
			return value{}, m.fail(pc, in, "partial read of a spilled pointer at fp%+d", so-stackSize)
		}
		for i := 0; i < size; i++ {
			if !m.stackInit[so+i] {
				return value{}, m.fail(pc, in, "read of uninitialised stack byte fp%+d", so+i-stackSize)
			}
		}
	}
	return value{kind: kScalar, v: readLE(mem)}, nil
}

func (m *machine) store(pc int, in asm.Insn, p value, off int64, size int, val value, regNo int) error {
	mem, so, isStack, err := m.resolve(pc, in, p, off, size, regNo, true)
	if err != nil {
		return err
	}
	if val.kind != kScalar {
		// Pointers may only be spilled to the stack, as aligned 8-byte values.
		if !isStack || size != 8 {
			return m.fail(pc, in, "store of a %s to non-stack memory or with size %d (pointer leak)", val.kind, size)
		}
		m.spills[so] = val
		for i := 0; i < 8; i++ {
			m.stackInit[so+i] = true
			m.stack[so+i] = 0
		}
		return nil
	}
	if isStack {
		delete(m.spills, so&^7)
		for i := 0; i < size; i++ {
			m.stackInit[so+i] = true
		}
	}
	writeLE(mem, val.v)
	return nil
}

func (m *machine) alu(pc int, in asm.Insn, is64 bool) error {
	op := uint8(in.OpCode())
	aop := op & 0xf0
	dst, src := int(in.Dst()), int(in.Src())
	if dst == 10 {
		return m.fail(pc, in, "write to frame pointer R10")
	}
	useReg := op&asm.ALUSrcReg != 0
	d := m.regs[dst]

	if aop == asm.ALUOpEndian {
		if d.kind != kScalar {
			return m.fail(pc, in, "byte swap of %s R%d", d.kind, dst)
		}
		w := in.Imm()
		toBE := useReg // the "source" bit selects to-BE (0x08) vs to-LE (0x00)
		v := d.v
		if is64 {
			// BPF_ALU64|BPF_END = unconditional bswap (ISA v4).
			toBE = true
		}
		switch w {
		case 16:
			v &= 0xffff
			if toBE {
				v = uint64(bits.ReverseBytes16(uint16(v)))
			}
		case 32:
			v &= 0xffffffff
			if toBE {
				v = uint64(bits.ReverseBytes32(uint32(v)))
			}
		case 64:
			if toBE {
				v = bits.ReverseBytes64(v)
			}
		}
		m.regs[dst] = value{kind: kScalar, v: v}
		return nil
	}

	var s value
	if aop == asm.ALUOpNegate {
		s = value{kind: kScalar}
	} else if useReg {
		s = m.regs[src]
		if s.kind == kUninit {
			return m.fail(pc, in, "read of uninitialised register R%d", src)
		}
	} else {
		s = value{kind: kScalar, v: uint64(int64(in.Imm()))}
	}

	if aop == asm.ALUOpMov {
		if !is64 {
			if s.kind != kScalar {
				return m.fail(pc, in, "32-bit move of %s (partial copy of a pointer)", s.kind)
			}
			s.v = uint64(uint32(s.v))
		}
		m.regs[dst] = s
		return nil
	}

	if d.kind == kUninit {
		return m.fail(pc, in, "read of uninitialised register R%d", dst)
	}

	// Pointer arithmetic: only 64-bit add/sub of a scalar to/from a ctx/stack/map-value pointer.
	if d.kind != kScalar || s.kind != kScalar {
		if !is64 || (aop != asm.ALUOpAdd && aop != asm.ALUOpSub) {
			return m.fail(pc, in, "prohibited arithmetic on pointer (R%d is %s, operand is %s)", dst, d.kind, s.kind)
		}
		ptr, sc := d, s
		if d.kind == kScalar {
			if aop == asm.ALUOpSub {
				return m.fail(pc, in, "scalar minus pointer")
			}
			ptr, sc = s, d
		}
		if sc.kind != kScalar {
			return m.fail(pc, in, "arithmetic between two pointers")
		}
		if ptr.kind == kMapHandle {
			return m.fail(pc, in, "arithmetic on map handle")
		}
		if ptr.maybeNull {
			return m.fail(pc, in, "arithmetic on possibly-NULL map value pointer")
		}
		if aop == asm.ALUOpAdd {
			ptr.v += sc.v
		} else {
			ptr.v -= sc.v
		}
		m.regs[dst] = ptr
		return nil
	}

	a, b := d.v, s.v
	if !is64 {
		a, b = uint64(uint32(a)), uint64(uint32(b))
	}
	var r uint64
	switch aop {
	case asm.ALUOpAdd:
		r = a + b
	case asm.ALUOpSub:
		r = a - b
	case asm.ALUOpMul:
		r = a * b
	case asm.ALUOpDiv:
		if b == 0 {
			r = 0
		} else {
			r = a / b
		}
	case asm.ALUOpMod:
		if b == 0 {
			r = a
		} else {
			r = a % b
		}
	case asm.ALUOpOr:
		r = a | b
	case asm.ALUOpAnd:
		r = a & b
	case asm.ALUOpXOR:
		r = a ^ b
	case asm.ALUOpShiftL:
		if is64 {
			r = a << (b & 63)
		} else {
			r = a << (b & 31)
		}
	case asm.ALUOpShiftR:
		if is64 {
			r = a >> (b & 63)
		} else {
			r = a >> (b & 31)
		}
	case asm.ALUOpAShiftR:
		if is64 {
			r = uint64(int64(a) >> (b & 63))
		} else {
			r = uint64(uint32(int32(uint32(a)) >> (b & 31)))
		}
	case asm.ALUOpNegate:
		r = -a
	default:
		return m.fail(pc, in, "unknown ALU op")
	}
	if !is64 {
		r = uint64(uint32(r))
	}
	m.regs[dst] = value{kind: kScalar, v: r}
	return nil
}

func (m *machine) cond(pc int, in asm.Insn, jop uint8, is64 bool) (bool, error) {
	op := uint8(in.OpCode())
	dst, src := int(in.Dst()), int(in.Src())
	d := m.regs[dst]
	if d.kind == kUninit {
		return false, m.fail(pc, in, "read of uninitialised register R%d", dst)
	}
	var s value
	if op&asm.ALUSrcReg != 0 {
		s = m.regs[src]
		if s.kind == kUninit {
			return false, m.fail(pc, in, "read of uninitialised register R%d", src)
		}
	} else {
		s = value{kind: kScalar, v: uint64(int64(in.Imm()))}
	}
	if d.kind != kScalar || s.kind != kScalar {
		// The only pointer comparison modelled: (maybe-NULL) map value pointer ==/!= 0, 64-bit.
		if d.kind == kPtrMapValue && s.kind == kScalar && s.v == 0 && op&asm.ALUSrcReg == 0 && is64 &&
			(jop == asm.JumpOpEq || jop == asm.JumpOpNE) {
			if d.maybeNull {
				id := d.nullID
				for i := range m.regs {
					if m.regs[i].maybeNull && m.regs[i].nullID == id {
						m.regs[i].maybeNull = false
					}
				}
				for k, sp := range m.spills {
					if sp.maybeNull && sp.nullID == id {
						sp.maybeNull = false
						m.spills[k] = sp
					}
				}
			}
			return jop == asm.JumpOpNE, nil // the pointer is non-NULL
		}
		return false, m.fail(pc, in, "unsupported comparison involving a pointer (R%d is %s, operand is %s)", dst, d.kind, s.kind)
	}
	a, b := d.v, s.v
	var sa, sb int64
	if is64 {
		sa, sb = int64(a), int64(b)
	} else {
		a, b = uint64(uint32(a)), uint64(uint32(b))
		sa, sb = int64(int32(uint32(a))), int64(int32(uint32(b)))
	}
	// A lookup miss is the scalar 0 here; comparing it is an ordinary scalar comparison.
	switch jop {
	case asm.JumpOpEq:
		return a == b, nil
	case asm.JumpOpNE:
		return a != b, nil
	case asm.JumpOpGT:
		return a > b, nil
	case asm.JumpOpGE:
		return a >= b, nil
	case asm.JumpOpLT:
		return a < b, nil
	case asm.JumpOpLE:
		return a <= b, nil
	case asm.JumpOpSet:
		return a&b != 0, nil
	case asm.JumpOpSGT:
		return sa > sb, nil
	case asm.JumpOpSGE:
		return sa >= sb, nil
	case asm.JumpOpSLT:
		return sa < sb, nil
	case asm.JumpOpSLE:
		return sa <= sb, nil
	}
	return false, m.fail(pc, in, "unknown jump op")
}

// readArgMem returns size bytes behind pointer argument R<regNo>, requiring them to be readable
// and (on the stack) initialised.
func (m *machine) readArgMem(pc int, in asm.Insn, regNo int, size int) ([]byte, error) {
	p := m.regs[regNo]
	switch p.kind {
	case kPtrStack, kPtrMapValue:
	default:
		return nil, m.fail(pc, in, "helper argument R%d must point to stack or map value memory, is %s", regNo, p.kind)
	}
	if p.maybeNull {
		return nil, m.fail(pc, in, "helper argument R%d is a possibly-NULL pointer", regNo)
	}
	o := int64(p.v)
	if p.kind == kPtrStack {
		if o < 0 || o+int64(size) > stackSize {
			return nil, m.fail(pc, in, "helper argument R%d: stack range fp%+d size %d out of bounds", regNo, o-stackSize, size)
		}
		for i := 0; i < size; i++ {
			if !m.stackInit[int(o)+i] {
				return nil, m.fail(pc, in, "helper argument R%d: stack byte fp%+d is uninitialised (key/buffer of %d bytes)", regNo, int(o)+i-stackSize, size)
			}
		}
		for k := range m.spills {
			if int64(k) < o+int64(size) && int64(k)+8 > o {
				return nil, m.fail(pc, in, "helper argument R%d overlaps a spilled pointer", regNo)
			}
		}
		out := make([]byte, size)
		copy(out, m.stack[o:o+int64(size)])
		return out, nil
	}
	if o < 0 || o+int64(size) > int64(len(p.reg.data)) {
		return nil, m.fail(pc, in, "helper argument R%d: %s range off %d size %d out of bounds", regNo, p.reg.name, o, size)
	}
	out := make([]byte, size)
	copy(out, p.reg.data[o:o+int64(size)])
	return out, nil
}

func (m *machine) clobberCallerSaved() {
	for i := 1; i <= 5; i++ {
		m.regs[i] = value{}
	}
}

// call executes a helper.  done=true means the program ended (tail call): next is the next
// program (nil for a terminal Stub).
func (m *machine) call(pc int, in asm.Insn) (next asm.Insns, done bool, err error) {
	switch asm.Helper(in.Imm()) {
	case asm.HelperMapLookupElem:
		h := m.regs[1]
		if h.kind != kMapHandle {
			return nil, false, m.fail(pc, in, "map_lookup_elem: R1 must be a map handle, is %s", h.kind)
		}
		lm, ok := h.m.(LookupMap)
		if !ok {
			return nil, false, m.fail(pc, in, "map_lookup_elem on map %q which does not support lookups from programs", h.m.Name())
		}
		if m.regs[2].kind == kUninit {
			return nil, false, m.fail(pc, in, "map_lookup_elem: R2 uninitialised")
		}
		key, err := m.readArgMem(pc, in, 2, lm.KeySize())
		if err != nil {
			return nil, false, err
		}
		val := lm.Lookup(key)
		m.clobberCallerSaved()
		if val == nil {
			m.regs[0] = value{kind: kScalar, v: 0}
		} else {
			m.nextNull++
			m.regs[0] = value{kind: kPtrMapValue, reg: &region{name: "map " + h.m.Name() + " value", data: val},
				maybeNull: true, nullID: m.nextNull}
		}
		return nil, false, nil

	case asm.HelperTailCall:
		if m.regs[1].kind != kPtrCtx || m.regs[1].v != 0 {
			return nil, false, m.fail(pc, in, "tail_call: R1 must be the unmodified context pointer, is %s%+d", m.regs[1].kind, int64(m.regs[1].v))
		}
		h := m.regs[2]
		if h.kind != kMapHandle {
			return nil, false, m.fail(pc, in, "tail_call: R2 must be a map handle, is %s", h.kind)
		}
		pa, ok := h.m.(*ProgArray)
		if !ok {
			return nil, false, m.fail(pc, in, "tail_call on map %q which is not a program array", h.m.Name())
		}
		if m.regs[3].kind != kScalar {
			return nil, false, m.fail(pc, in, "tail_call: R3 must be a scalar index, is %s", m.regs[3].kind)
		}
		idx := uint32(m.regs[3].v)
		tc := TailCall{MapFD: uint32(h.v), Map: pa.Name(), Index: idx, PC: pc, Prog: m.chainPos}
		slot := pa.Get(idx)
		if slot == nil || m.tailCalls >= m.vm.MaxTailCalls {
			m.res.FailedTailCalls = append(m.res.FailedTailCalls, tc)
			m.clobberCallerSaved()
			m.regs[0] = value{} // RET_VOID: R0 is not readable after a failed tail call
			return nil, false, nil
		}
		m.tailCalls++
		switch s := slot.(type) {
		case *Stub:
			m.res.Exit = ExitTailCall
			m.res.Final = tc
			m.res.Stub = s
			m.res.R0 = s.RC
			return nil, true, nil
		case *SubProgram:
			m.res.Chain = append(m.res.Chain, tc)
			return s.Insns, true, nil
		}
		return nil, false, m.fail(pc, in, "tail_call: unknown slot type")

	case asm.HelperTracePrintk:
		if m.regs[2].kind != kScalar || m.regs[2].v == 0 || m.regs[2].v > 512 {
			return nil, false, m.fail(pc, in, "trace_printk: bad fmt size in R2")
		}
		if _, err := m.readArgMem(pc, in, 1, int(m.regs[2].v)); err != nil {
			return nil, false, err
		}
		m.clobberCallerSaved()
		m.regs[0] = value{kind: kScalar, v: 0}
		return nil, false, nil

	case asm.HelperKtimeGetNs:
		m.clobberCallerSaved()
		m.regs[0] = value{kind: kScalar, v: m.vm.KtimeNs}
		return nil, false, nil
	}
	return nil, false, m.fail(pc, in, "unknown/unsupported helper %d", in.Imm())
}
