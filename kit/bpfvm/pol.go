package bpfvm

import (
	"encoding/binary"
	"fmt"
	"net/netip"

	"github.com/projectcalico/calico/felix/bpf/asm"
	"github.com/projectcalico/calico/felix/bpf/ipsets"
	"github.com/projectcalico/calico/felix/bpf/jump"
	"github.com/projectcalico/calico/felix/bpf/state"
)

// This file wires the generic VM up the way Felix wires a policy program: the state map, the
// IP-set LPM trie, the static program array (allow/drop slots) and the policy jump map holding
// the sub-programs returned by polprog.Builder.Instructions.

// Map "file descriptors" used by PolicyEnv; pass them to polprog.NewBuilder.
const (
	FDIPSets    uint32 = 11
	FDState     uint32 = 12
	FDStaticMap uint32 = 13
	FDPolicyMap uint32 = 14
)

// State flag bits (enum cali_state_flags in felix/bpf-gpl/types.h).
const (
	StateFlagDestIsHost uint64 = 0x04
	StateFlagSrcIsHost  uint64 = 0x08
	StateFlagLogPacket  uint64 = 1 << 10
)

// PolicyPacket is the part of struct cali_tc_state a policy program reads.
type PolicyPacket struct {
	Proto        uint8
	Src          netip.Addr
	DstPreNAT    netip.Addr // state->pre_nat_ip_dst
	DstPostNAT   netip.Addr // state->post_nat_ip_dst
	SPort        uint16
	PreNATDPort  uint16
	PostNATDPort uint16
	// DPortOrICMP is the raw 16-bit union state->dport / {icmp_type, icmp_code}.  Use SetICMP for
	// ICMP packets.
	DPortOrICMP uint16
	SrcIsHost   bool // CALI_ST_SRC_IS_HOST
	DstIsHost   bool // CALI_ST_DEST_IS_HOST
	ExtraFlags  uint64
	RulesHit    uint32
	// IPDst is state->ip_dst (not read by policy programs; filled for completeness).
	IPDst netip.Addr
}

// SetICMP stores type/code in the dport union (type in the low byte, as in the C struct).
func (p *PolicyPacket) SetICMP(typ, code uint8) { p.DPortOrICMP = uint16(typ) | uint16(code)<<8 }
func (p PolicyPacket) ICMPType() uint8          { return uint8(p.DPortOrICMP) }
func (p PolicyPacket) ICMPCode() uint8          { return uint8(p.DPortOrICMP >> 8) }

func addrWords(a netip.Addr) [4]uint32 {
	var w [4]uint32
	if !a.IsValid() {
		return w
	}
	if a.Is4() {
		b := a.As4()
		w[0] = binary.LittleEndian.Uint32(b[:])
		return w
	}
	b := a.As16()
	for i := 0; i < 4; i++ {
		w[i] = binary.LittleEndian.Uint32(b[i*4:])
	}
	return w
}

// State renders the packet as the Go mirror of struct cali_tc_state (felix/bpf/state.State),
// addresses in network byte order, ports in host byte order — the same way felix/bpf/ut does.
func (p PolicyPacket) State() state.State {
	s, d, pre, post := addrWords(p.Src), addrWords(p.IPDst), addrWords(p.DstPreNAT), addrWords(p.DstPostNAT)
	flags := p.ExtraFlags
	if p.SrcIsHost {
		flags |= StateFlagSrcIsHost
	}
	if p.DstIsHost {
		flags |= StateFlagDestIsHost
	}
	return state.State{
		SrcAddr: s[0], SrcAddr1: s[1], SrcAddr2: s[2], SrcAddr3: s[3],
		DstAddr: d[0], DstAddr1: d[1], DstAddr2: d[2], DstAddr3: d[3],
		PreNATDstAddr: pre[0], PreNATDstAddr1: pre[1], PreNATDstAddr2: pre[2], PreNATDstAddr3: pre[3],
		PostNATDstAddr: post[0], PostNATDstAddr1: post[1], PostNATDstAddr2: post[2], PostNATDstAddr3: post[3],
		SrcPort:        p.SPort,
		DstPort:        p.DPortOrICMP,
		PreNATDstPort:  p.PreNATDPort,
		PostNATDstPort: p.PostNATDPort,
		IPProto:        p.Proto,
		RulesHit:       p.RulesHit,
		Flags:          flags,
	}
}

// PolicyEnv is one policy attachment: maps + VM.
type PolicyEnv struct {
	VM      *VM
	IPv6    bool
	XDP     bool
	State   *ArrayMap
	IPSets  *LPMTrie
	Static  *ProgArray
	PolJump *ProgArray

	AllowIdx, DenyIdx int
	AllowStub         *Stub
	DenyStub          *Stub
}

// Return codes reported for the two stubs (arbitrary, distinct from TC_ACT_*/XDP_* values).
const (
	RCAllowStub = 123
	RCDenyStub  = 124
)

// NewPolicyEnv builds the maps with the real map parameters (key/value sizes from
// felix/bpf/ipsets, felix/bpf/state, felix/bpf/jump).  The allow/drop stubs are installed at
// allowIdx/denyIdx of the static program array; for TC the indexes are also written to
// skb->cb[0]/cb[1], which is where a program built without WithAllowDenyJumps reads them.
// polJumpEntries <= 0 selects the real size of the policy jump map.
func NewPolicyEnv(ipv6, xdp bool, allowIdx, denyIdx, polJumpEntries int) *PolicyEnv {
	e := &PolicyEnv{VM: New(), IPv6: ipv6, XDP: xdp, AllowIdx: allowIdx, DenyIdx: denyIdx}
	e.State = NewArrayMap("cali_state", state.MapParameters.ValueSize, state.MapParameters.MaxEntries)
	if ipv6 {
		e.IPSets = NewLPMTrie("cali_v6_ip_sets", ipsets.MapV6Parameters.KeySize, ipsets.MapV6Parameters.ValueSize)
	} else {
		e.IPSets = NewLPMTrie("cali_v4_ip_sets", ipsets.MapParameters.KeySize, ipsets.MapParameters.ValueSize)
	}
	e.Static = NewProgArray("static-progs", 400)
	if polJumpEntries <= 0 {
		polJumpEntries = jump.TCMaxEntries
		if xdp {
			polJumpEntries = jump.XDPMaxEntries
		}
	}
	e.PolJump = NewProgArray("policy-jump", polJumpEntries)
	e.AllowStub = &Stub{Name: "allow", RC: RCAllowStub}
	e.DenyStub = &Stub{Name: "deny", RC: RCDenyStub}
	if err := e.Static.SetStub(allowIdx, e.AllowStub); err != nil {
		panic(err)
	}
	if err := e.Static.SetStub(denyIdx, e.DenyStub); err != nil {
		panic(err)
	}
	e.VM.AddMap(FDIPSets, e.IPSets)
	e.VM.AddMap(FDState, e.State)
	e.VM.AddMap(FDStaticMap, e.Static)
	e.VM.AddMap(FDPolicyMap, e.PolJump)
	if xdp {
		e.VM.SetXDPCtx()
	} else {
		e.VM.SetSkbCtx(uint32(allowIdx), uint32(denyIdx))
	}
	return e
}

// AddIPSetMember encodes member ("10.0.0.0/24", "10.0.0.1", "10.0.0.1,tcp:80", v6 likewise) with the
// real felix/bpf/ipsets encoder for this env's IP version and inserts it into the LPM trie.
// loaded=false means the encoder does not represent this member for this IP version (wrong
// family, or a protocol other than tcp/udp) — exactly what Felix would leave out of the map.
func (e *PolicyEnv) AddIPSetMember(setID uint64, member string) (loaded bool, err error) {
	var ent ipsets.IPSetEntryInterface
	if e.IPv6 {
		ent = ipsets.ProtoIPSetMemberToBPFEntryV6(setID, member)
	} else {
		ent = ipsets.ProtoIPSetMemberToBPFEntry(setID, member)
	}
	if ent == nil {
		return false, nil
	}
	return true, e.IPSets.Update(ent.AsBytes(), ipsets.DummyValue)
}

// InstallPolicy puts sub-program i at index polIdx + i*stride of the policy jump map (what
// bpfEndpointManager.doUpdatePolicyProgram does) and returns the entry program.
func (e *PolicyEnv) InstallPolicy(progs []asm.Insns, polIdx, stride int) (asm.Insns, error) {
	if len(progs) == 0 {
		return nil, fmt.Errorf("no programs")
	}
	for i, p := range progs {
		if err := e.PolJump.SetProgram(polIdx+i*stride, &SubProgram{Name: fmt.Sprintf("policy-%d", i), Insns: p}); err != nil {
			return nil, err
		}
	}
	return progs[0], nil
}

// Verdict is the decoded outcome of a policy program run.
type Verdict int

const (
	// VerdictOther: anything that is not one of the clean outcomes below (failed tail call, exit
	// with an unexpected code, inconsistent pol_rc, …); see PolicyResult.Detail.
	VerdictOther Verdict = iota
	// VerdictAllow: tail call into the allow slot with pol_rc == POL_ALLOW.
	VerdictAllow
	// VerdictDeny: tail call into the deny slot with pol_rc == POL_DENY.
	VerdictDeny
	// VerdictXDPPass: XDP program exited with XDP_PASS and pol_rc == POL_NO_MATCH.
	VerdictXDPPass
)

func (v Verdict) String() string {
	return [...]string{"other", "allow", "deny", "xdp-pass"}[v]
}

type PolicyResult struct {
	Verdict  Verdict
	Detail   string
	PolRC    state.PolicyResult
	StateOut state.State
	Raw      Result
}

// Run loads the packet into the state map (index 0), runs the entry program and decodes the result.
// An error is always an *InvalidProgramError.
func (e *PolicyEnv) Run(entry asm.Insns, pkt PolicyPacket) (PolicyResult, error) {
	st := pkt.State()
	e.State.Set(0, st.AsBytes())
	if e.XDP {
		e.VM.SetXDPCtx()
	} else {
		e.VM.SetSkbCtx(uint32(e.AllowIdx), uint32(e.DenyIdx))
	}
	raw, err := e.VM.Run(entry)
	out := state.StateFromBytes(e.State.Get(0))
	pr := PolicyResult{Raw: raw, StateOut: out, PolRC: out.PolicyRC}
	if err != nil {
		return pr, err
	}
	switch {
	case len(raw.FailedTailCalls) > 0:
		pr.Detail = fmt.Sprintf("tail call(s) failed: %+v", raw.FailedTailCalls)
	case raw.Exit == ExitTailCall && raw.Stub == e.AllowStub:
		if out.PolicyRC == state.PolicyAllow {
			pr.Verdict = VerdictAllow
		} else {
			pr.Detail = fmt.Sprintf("allow program reached with pol_rc=%d", out.PolicyRC)
		}
	case raw.Exit == ExitTailCall && raw.Stub == e.DenyStub:
		if out.PolicyRC == state.PolicyDeny {
			pr.Verdict = VerdictDeny
		} else {
			pr.Detail = fmt.Sprintf("deny program reached with pol_rc=%d", out.PolicyRC)
		}
	case raw.Exit == ExitReturn && e.XDP && raw.R0 == 2 /* XDP_PASS */ && out.PolicyRC == state.PolicyNoMatch:
		pr.Verdict = VerdictXDPPass
	default:
		pr.Detail = fmt.Sprintf("program exited with R0=%d pol_rc=%d exit-kind=%d", raw.R0, out.PolicyRC, raw.Exit)
	}
	return pr, nil
}
