package refpol

import (
	"strings"

	"github.com/projectcalico/calico/felix/proto"
)

// Dir is the direction of the traffic relative to the endpoint.
type Dir int

const (
	Inbound  Dir = iota // traffic TO the endpoint (ingress policy)
	Outbound            // traffic FROM the endpoint (egress policy)
)

func (d Dir) String() string {
	if d == Inbound {
		return "inbound"
	}
	return "outbound"
}

// Policy is one policy as it is attached to an endpoint.
type Policy struct {
	Name   string
	Staged bool // Staged* kinds: never affect the verdict
	// AppliesInbound/AppliesOutbound: whether the policy is listed for the endpoint in that
	// direction (proto.TierInfo ingress_policies / egress_policies).
	AppliesInbound, AppliesOutbound bool
	InboundRules, OutboundRules     []*proto.Rule
}

// Tier is an ordered list of policies plus the tier's default action ("Deny" unless "Pass").
type Tier struct {
	Name          string
	DefaultAction string // "", "Deny" or "Pass" (case-insensitive)
	Policies      []Policy
}

// Profile is one profile (evaluated after the tiers, in order).
type Profile struct {
	Name                        string
	InboundRules, OutboundRules []*proto.Rule
}

// Decision is the outcome of the reference evaluation.
type Decision int

const (
	Deny Decision = iota
	Allow
	// NoOpinion is only produced with Options.NoEndOfTierDeny / Options.NoFinalDeny: the
	// policy said nothing about the packet (untracked / pre-DNAT / apply-on-forward chains).
	NoOpinion
	// Unspecified: the C09 sentence does not define the outcome (a "pass" rule matched
	// inside a profile).  Oracles must stay silent.
	Unspecified
)

func (d Decision) String() string {
	return [...]string{"deny", "allow", "no-opinion", "unspecified"}[d]
}

// Options select the chain variants that differ from the normal endpoint chain.
type Options struct {
	// NoEndOfTierDeny: a tier whose enforced policies match nothing does not deny, it moves
	// on (untracked, pre-DNAT and apply-on-forward host endpoint chains).
	NoEndOfTierDeny bool
	// NoProfiles: profiles are not evaluated.
	NoProfiles bool
	// NoFinalDeny: reaching the end yields NoOpinion instead of Deny.
	NoFinalDeny bool
}

// Where records what decided (for shape keys / non-triviality classification).
type Where struct {
	Decision Decision
	// Tier/Policy/Rule index of the deciding rule (-1 when not decided by a rule);
	// Profile index when decided by a profile rule (-1 otherwise).
	Tier, Policy, Rule, Profile int
	// ByTierDefault: decided by the end-of-tier default deny of tier Tier.
	ByTierDefault bool
	// PassedTiers counts tiers left through a pass rule or a Pass default action.
	PassedTiers int
	// LogHits counts matching "log" rules met before the decision (enforced policies and
	// profiles only).
	LogHits int
}

func actionOf(r *proto.Rule) string {
	switch strings.ToLower(r.Action) {
	case "", "allow":
		return "allow"
	case "deny":
		return "deny"
	case "pass", "next-tier":
		return "pass"
	case "log":
		return "log"
	}
	gap("unknown rule action %q", r.Action)
	return ""
}

// Verdict implements the sentence of property C09 literally:
//
//	Tiers are evaluated in order; the first matching allow or deny decides; pass moves to the
//	next tier; a tier that holds an enforced policy for this direction and matches nothing
//	denies unless its default action is pass; staged policies never affect the verdict; then
//	profiles are evaluated, and anything not allowed is denied.
func Verdict(tiers []Tier, profiles []Profile, dir Dir, pkt *Packet, sets IPSets) Decision {
	return VerdictWhere(tiers, profiles, dir, pkt, sets, Options{}).Decision
}

// VerdictWhere is Verdict with chain-variant options and an account of what decided.
func VerdictWhere(tiers []Tier, profiles []Profile, dir Dir, pkt *Packet, sets IPSets, opt Options) Where {
	w := Where{Tier: -1, Policy: -1, Rule: -1, Profile: -1}
	for ti, tier := range tiers {
		enforced := 0
		passed := false
	policies:
		for pi, pol := range tier.Policies {
			applies, rules := pol.AppliesInbound, pol.InboundRules
			if dir == Outbound {
				applies, rules = pol.AppliesOutbound, pol.OutboundRules
			}
			if !applies || pol.Staged {
				continue
			}
			enforced++
			for ri, r := range rules {
				if !Match(r, pkt, sets) {
					continue
				}
				switch actionOf(r) {
				case "allow":
					w.Decision, w.Tier, w.Policy, w.Rule = Allow, ti, pi, ri
					return w
				case "deny":
					w.Decision, w.Tier, w.Policy, w.Rule = Deny, ti, pi, ri
					return w
				case "pass":
					passed = true
					break policies
				case "log":
					w.LogHits++
				}
			}
		}
		if passed {
			w.PassedTiers++
			continue
		}
		if enforced == 0 {
			continue
		}
		if strings.EqualFold(tier.DefaultAction, "Pass") {
			w.PassedTiers++
			continue
		}
		if opt.NoEndOfTierDeny {
			continue
		}
		w.Decision, w.Tier, w.ByTierDefault = Deny, ti, true
		return w
	}
	if !opt.NoProfiles {
		for pi, prof := range profiles {
			rules := prof.InboundRules
			if dir == Outbound {
				rules = prof.OutboundRules
			}
			for ri, r := range rules {
				if !Match(r, pkt, sets) {
					continue
				}
				switch actionOf(r) {
				case "allow":
					w.Decision, w.Profile, w.Rule = Allow, pi, ri
					return w
				case "deny":
					w.Decision, w.Profile, w.Rule = Deny, pi, ri
					return w
				case "pass":
					w.Decision, w.Profile, w.Rule = Unspecified, pi, ri
					return w
				case "log":
					w.LogHits++
				}
			}
		}
	}
	if opt.NoFinalDeny {
		w.Decision = NoOpinion
		return w
	}
	w.Decision = Deny
	return w
}

// FirstMatch evaluates a plain rule list (one policy or profile chain): it returns the index
// of the first matching rule whose action is allow, deny or pass (-1 if none) and the indices
// of the matching log rules met before it.
func FirstMatch(rules []*proto.Rule, pkt *Packet, sets IPSets) (decider int, action string, logs []int) {
	for i, r := range rules {
		if !Match(r, pkt, sets) {
			continue
		}
		a := actionOf(r)
		if a == "log" {
			logs = append(logs, i)
			continue
		}
		return i, a, logs
	}
	return -1, "", logs
}
