// Package refpol is the reference ("obviously correct") semantics of Calico policy rules
// as Felix receives them (felix/proto.Rule), used as the oracle by the C08/C09/C11/C12/C40
// harnesses.  It shares no code with Felix's renderers: every clause of a rule is evaluated
// directly against a packet with plain set/interval arithmetic.
//
// Semantics implemented (sources: the field documentation in felix/proto/felixbackend.proto
// and api/pkg/apis/projectcalico/v3/policy_common.go, plus the documented behaviour of
// FilterRuleToIPVersion/filterNets in felix/rules/policy.go):
//
//   - a rule is the conjunction of all its populated clauses;
//   - ip_version: a rule with an explicit version only applies to packets of that version;
//   - CIDR lists are filtered to the packet's IP version; a populated list that contains only
//     CIDRs of the other version makes the rule not apply to this version at all (this holds
//     for the negated lists too); a negated catch-all CIDR makes the rule never match (that
//     is also just what "not in 0.0.0.0/0" means);
//   - src_net/dst_net: address in ANY listed CIDR; not_*_net: address in NONE;
//   - protocol / not_protocol by name or number;
//   - numeric ports and named-port IP sets of one side are OR-ed ("matches any numeric port
//     range or any listed named port IP set"); negated ports / negated named-port sets: none
//     may match;
//   - *_ip_set_ids: address must be in EVERY listed set; not_*_ip_set_ids: in NONE;
//   - dst_ip_port_set_ids: (dst, proto, dport) must be in EVERY listed set;
//   - icmp type / type+code: the packet must be ICMP (v4) / ICMPv6 (v6) and type (and code)
//     equal; not_icmp is the plain negation of that predicate.
//
// Ports only exist for TCP, UDP and SCTP (the protocols the API allows port matches with);
// for any other protocol a numeric port clause is false and a named-port lookup uses the key
// (addr, proto, 0), which no Felix-written set contains.
package refpol

import (
	"fmt"
	"net/netip"
	"strings"

	"github.com/projectcalico/calico/felix/proto"
)

// Packet is the part of a packet that policy rules can look at.
type Packet struct {
	IPVersion int // 4 or 6
	Proto     uint8
	Src, Dst  netip.Addr
	SrcPort   uint16 // meaningful only if HasPorts(Proto)
	DstPort   uint16
	ICMPType  uint8 // meaningful only if Proto is ICMP (v4) / ICMPv6 (v6)
	ICMPCode  uint8
}

func (p Packet) String() string {
	s := fmt.Sprintf("v%d proto=%d %s->%s", p.IPVersion, p.Proto, p.Src, p.Dst)
	if HasPorts(p.Proto) {
		s += fmt.Sprintf(" sport=%d dport=%d", p.SrcPort, p.DstPort)
	}
	if p.isICMP() {
		s += fmt.Sprintf(" icmp=%d/%d", p.ICMPType, p.ICMPCode)
	}
	return s
}

const (
	ProtoICMP    = 1
	ProtoTCP     = 6
	ProtoUDP     = 17
	ProtoICMPv6  = 58
	ProtoSCTP    = 132
	ProtoUDPLite = 136
)

// HasPorts reports whether policy port matches are defined for the protocol.
func HasPorts(p uint8) bool { return p == ProtoTCP || p == ProtoUDP || p == ProtoSCTP }

func (p Packet) isICMP() bool {
	return (p.IPVersion == 4 && p.Proto == ProtoICMP) || (p.IPVersion == 6 && p.Proto == ProtoICMPv6)
}

// IPPort is a member of an "IP and port" set (named ports, services).
type IPPort struct {
	Addr  netip.Addr
	Proto uint8
	Port  uint16
}

// IPSet is the content of one IP set for ONE IP version.  A set is either a net set
// (Nets populated) or an IP+port set (IPPorts populated).
type IPSet struct {
	Nets    []netip.Prefix
	IPPorts []IPPort
}

// IPSets gives the reference access to IP set contents, keyed by the IP set ID used in the
// rule (not by the dataplane name).
type IPSets interface {
	// Lookup returns the set with the given ID for the given IP version; ok=false if the
	// harness never defined it.
	Lookup(id string, ipVersion int) (set *IPSet, ok bool)
}

// MapSets is the trivial IPSets: id -> content, separately per IP version.
type MapSets struct {
	V4, V6 map[string]*IPSet
}

func (m MapSets) Lookup(id string, ipVersion int) (*IPSet, bool) {
	mm := m.V4
	if ipVersion == 6 {
		mm = m.V6
	}
	s, ok := mm[id]
	return s, ok
}

func (s *IPSet) containsAddr(a netip.Addr) bool {
	for _, n := range s.Nets {
		if n.Contains(a) {
			return true
		}
	}
	return false
}

func (s *IPSet) containsIPPort(a netip.Addr, proto uint8, port uint16) bool {
	for _, m := range s.IPPorts {
		if m.Addr == a && m.Proto == proto && m.Port == port {
			return true
		}
	}
	return false
}

// gap panics with a HARNESS-GAP message: the reference was handed something it has no
// defined answer for (the driver maps this to "inconclusive", never to a violation).
func gap(format string, args ...any) {
	panic("HARNESS-GAP: refpol: " + fmt.Sprintf(format, args...))
}

// ProtocolNumber resolves a proto.Protocol to its IP protocol number.
func ProtocolNumber(p *proto.Protocol) uint8 {
	switch v := p.GetNumberOrName().(type) {
	case *proto.Protocol_Number:
		if v.Number < 0 || v.Number > 255 {
			gap("protocol number %d out of range", v.Number)
		}
		return uint8(v.Number)
	case *proto.Protocol_Name:
		switch strings.ToLower(v.Name) {
		case "tcp":
			return ProtoTCP
		case "udp":
			return ProtoUDP
		case "icmp":
			return ProtoICMP
		case "icmpv6":
			return ProtoICMPv6
		case "sctp":
			return ProtoSCTP
		case "udplite":
			return ProtoUDPLite
		}
		gap("unknown protocol name %q", v.Name)
	}
	gap("protocol with neither name nor number")
	return 0
}

func mustSet(sets IPSets, id string, ipv int) *IPSet {
	if sets == nil {
		gap("rule references IP set %q but no IPSets given", id)
	}
	s, ok := sets.Lookup(id, ipv)
	if !ok || s == nil {
		gap("rule references undefined IP set %q (v%d)", id, ipv)
	}
	return s
}

// netsOfVersion parses the CIDRs of the packet's version out of a mixed list.  allOther is
// true when the list is non-empty but holds no CIDR of the wanted version.
func netsOfVersion(cidrs []string, ipv int) (nets []netip.Prefix, allOther bool) {
	for _, c := range cidrs {
		p, err := netip.ParsePrefix(c)
		if err != nil {
			gap("unparseable CIDR %q: %v", c, err)
		}
		is6 := p.Addr().Is6() && !p.Addr().Is4In6()
		if is6 != (ipv == 6) {
			continue
		}
		nets = append(nets, p.Masked())
	}
	return nets, len(cidrs) > 0 && len(nets) == 0
}

func inAny(nets []netip.Prefix, a netip.Addr) bool {
	for _, n := range nets {
		if n.Contains(a) {
			return true
		}
	}
	return false
}

func portInAny(ranges []*proto.PortRange, port uint16) bool {
	for _, r := range ranges {
		if int32(port) >= r.First && int32(port) <= r.Last {
			return true
		}
	}
	return false
}

// Match reports whether the rule matches the packet (the rule's action is not looked at).
func Match(rule *proto.Rule, pkt *Packet, sets IPSets) bool {
	ipv := pkt.IPVersion
	if ipv != 4 && ipv != 6 {
		gap("packet IP version %d", ipv)
	}
	if pkt.Src.Is6() != (ipv == 6) || pkt.Dst.Is6() != (ipv == 6) {
		gap("packet addresses %s/%s do not fit IP version %d", pkt.Src, pkt.Dst, ipv)
	}

	// IP version.
	switch rule.IpVersion {
	case proto.IPVersion_IPV4:
		if ipv != 4 {
			return false
		}
	case proto.IPVersion_IPV6:
		if ipv != 6 {
			return false
		}
	}

	// CIDR lists.
	srcNets, o1 := netsOfVersion(rule.SrcNet, ipv)
	notSrcNets, o2 := netsOfVersion(rule.NotSrcNet, ipv)
	dstNets, o3 := netsOfVersion(rule.DstNet, ipv)
	notDstNets, o4 := netsOfVersion(rule.NotDstNet, ipv)
	if o1 || o2 || o3 || o4 {
		// A populated list with nothing of this IP version: rule does not apply to this version.
		return false
	}
	if len(srcNets) > 0 && !inAny(srcNets, pkt.Src) {
		return false
	}
	if inAny(notSrcNets, pkt.Src) {
		return false
	}
	if len(dstNets) > 0 && !inAny(dstNets, pkt.Dst) {
		return false
	}
	if inAny(notDstNets, pkt.Dst) {
		return false
	}

	// Protocol.
	if rule.Protocol != nil && pkt.Proto != ProtocolNumber(rule.Protocol) {
		return false
	}
	if rule.NotProtocol != nil && pkt.Proto == ProtocolNumber(rule.NotProtocol) {
		return false
	}

	// Ports: numeric ranges OR named-port sets, per side.
	sport, dport := uint16(0), uint16(0)
	if HasPorts(pkt.Proto) {
		sport, dport = pkt.SrcPort, pkt.DstPort
	}
	numeric := func(ranges []*proto.PortRange, port uint16) bool {
		return HasPorts(pkt.Proto) && portInAny(ranges, port)
	}
	named := func(ids []string, a netip.Addr, port uint16) bool {
		for _, id := range ids {
			if mustSet(sets, id, ipv).containsIPPort(a, pkt.Proto, port) {
				return true
			}
		}
		return false
	}
	if len(rule.SrcPorts) > 0 || len(rule.SrcNamedPortIpSetIds) > 0 {
		if !numeric(rule.SrcPorts, sport) && !named(rule.SrcNamedPortIpSetIds, pkt.Src, sport) {
			return false
		}
	}
	if len(rule.DstPorts) > 0 || len(rule.DstNamedPortIpSetIds) > 0 {
		if !numeric(rule.DstPorts, dport) && !named(rule.DstNamedPortIpSetIds, pkt.Dst, dport) {
			return false
		}
	}
	if numeric(rule.NotSrcPorts, sport) || named(rule.NotSrcNamedPortIpSetIds, pkt.Src, sport) {
		return false
	}
	if numeric(rule.NotDstPorts, dport) || named(rule.NotDstNamedPortIpSetIds, pkt.Dst, dport) {
		return false
	}

	// IP sets.
	for _, id := range rule.SrcIpSetIds {
		if !mustSet(sets, id, ipv).containsAddr(pkt.Src) {
			return false
		}
	}
	for _, id := range rule.DstIpSetIds {
		if !mustSet(sets, id, ipv).containsAddr(pkt.Dst) {
			return false
		}
	}
	for _, id := range rule.NotSrcIpSetIds {
		if mustSet(sets, id, ipv).containsAddr(pkt.Src) {
			return false
		}
	}
	for _, id := range rule.NotDstIpSetIds {
		if mustSet(sets, id, ipv).containsAddr(pkt.Dst) {
			return false
		}
	}
	for _, id := range rule.DstIpPortSetIds {
		if !mustSet(sets, id, ipv).containsIPPort(pkt.Dst, pkt.Proto, dport) {
			return false
		}
	}

	// ICMP.
	switch ic := rule.Icmp.(type) {
	case *proto.Rule_IcmpType:
		if !icmpIs(pkt, ic.IcmpType, -1) {
			return false
		}
	case *proto.Rule_IcmpTypeCode:
		if !icmpIs(pkt, ic.IcmpTypeCode.Type, ic.IcmpTypeCode.Code) {
			return false
		}
	}
	switch ic := rule.NotIcmp.(type) {
	case *proto.Rule_NotIcmpType:
		if icmpIs(pkt, ic.NotIcmpType, -1) {
			return false
		}
	case *proto.Rule_NotIcmpTypeCode:
		if icmpIs(pkt, ic.NotIcmpTypeCode.Type, ic.NotIcmpTypeCode.Code) {
			return false
		}
	}
	return true
}

// icmpIs: packet is ICMP of its IP version with the given type and (if code>=0) code.
func icmpIs(pkt *Packet, typ, code int32) bool {
	if !pkt.isICMP() {
		return false
	}
	if int32(pkt.ICMPType) != typ {
		return false
	}
	return code < 0 || int32(pkt.ICMPCode) == code
}
