// Package memds is an in-memory implementation of the libcalico-go backend client
// (bapi.Client) for the /verif harnesses.
//
// The store mirrors the etcdv3 backend: every value is serialised with model.SerializeValue
// and stored under model.KeyToDefaultPath(key); reads parse the bytes again with
// model.ParseValue, so callers never share memory with the store (exactly as with a real
// datastore, including the second-granularity of metav1.Time and the `json:"-"` fields that
// do not survive a round trip).  Revisions are integers from one store-wide counter; every
// key remembers the revision of its last modification (etcd's ModRevision).
//
//	Create      fails with ErrorResourceAlreadyExists if the key exists
//	Update      fails with ErrorResourceDoesNotExist if absent; with a non-empty revision it is a
//	            compare-and-swap (ErrorResourceUpdateConflict on mismatch); with an empty
//	            revision it is unconditional (bapi.Client contract)
//	Apply       unconditional put
//	Delete/DeleteKVP  compare-and-delete when a revision is given
//	Get/List    current state (the revision argument is ignored); List uses the list
//	            options' own path root and KeyFromDefaultPath filter, like the etcd backend
//	Watch       not supported (ErrorOperationNotSupported)
//
// Two usage modes share one Client type:
//
//   - plain: store.Client() used with any context - calls execute immediately;
//   - scheduled: calls made with a context obtained from Scheduler.Go / Op.Context (or through
//     Op.Client()) park at a gate until the test releases them, optionally with a Fault
//     (see sched.go).
package memds

import (
	"context"
	"errors"
	"fmt"
	"sort"
	"strconv"
	"strings"
	"sync"

	apiv3 "github.com/projectcalico/api/pkg/apis/projectcalico/v3"
	metav1 "k8s.io/apimachinery/pkg/apis/meta/v1"
	"k8s.io/apimachinery/pkg/labels"

	"github.com/projectcalico/calico/libcalico-go/lib/apis/internalapi"
	bapi "github.com/projectcalico/calico/libcalico-go/lib/backend/api"
	"github.com/projectcalico/calico/libcalico-go/lib/backend/model"
	cerrors "github.com/projectcalico/calico/libcalico-go/lib/errors"
)

type entry struct {
	val    []byte
	modRev int64
}

// WriteEvent describes one write that landed in the store.  Old/New are freshly parsed
// values (nil when absent); observers may keep them.
type WriteEvent struct {
	Op       *Op    // operation that made the call (nil in plain mode)
	CallID   string // stable identity of the call ("" in plain mode)
	Method   string // Create | Update | Apply | Delete
	Key      model.Key
	Path     string
	Old, New any
	Rev      int64
}

// Store is the shared datastore.  All methods are safe for concurrent use.
type Store struct {
	mu        sync.Mutex
	rev       int64
	data      map[string]*entry
	observers []func(WriteEvent)
	conflicts int64
}

func NewStore() *Store {
	return &Store{data: map[string]*entry{}}
}

// OnWrite registers an observer that is called (under the store lock, in write order) for
// every write that lands.  Observers must not call back into the store.
func (s *Store) OnWrite(f func(WriteEvent)) {
	s.mu.Lock()
	defer s.mu.Unlock()
	s.observers = append(s.observers, f)
}

// Client returns a bapi.Client on this store.  Calls whose context carries a scheduled
// operation are gated; all others execute immediately.
func (s *Store) Client() *Client { return &Client{store: s} }

// Revision is the current store-wide revision.
func (s *Store) Revision() int64 {
	s.mu.Lock()
	defer s.mu.Unlock()
	return s.rev
}

// Conflicts is the number of compare-and-swap mismatches detected so far (injected
// conflicts are not counted here; see Scheduler.Trace).
func (s *Store) Conflicts() int64 {
	s.mu.Lock()
	defer s.mu.Unlock()
	return s.conflicts
}

// Paths returns the sorted paths currently stored.
func (s *Store) Paths() []string {
	s.mu.Lock()
	defer s.mu.Unlock()
	return s.sortedPathsLocked("")
}

func (s *Store) sortedPathsLocked(prefix string) []string {
	out := make([]string, 0, len(s.data))
	for p := range s.data {
		if strings.HasPrefix(p, prefix) {
			out = append(out, p)
		}
	}
	sort.Strings(out)
	return out
}

// Read returns the current value of key, bypassing gates and faults (for oracles).
func (s *Store) Read(key model.Key) (*model.KVPair, error) {
	return s.get(key)
}

// ReadList lists bypassing gates and faults (for oracles); result is sorted by path.
func (s *Store) ReadList(l model.ListInterface) (*model.KVPairList, error) {
	return s.list(l)
}

// Mutate rewrites the stored value of key in place through f (which gets a freshly parsed
// value and returns the value to store) WITHOUT changing its revision and without notifying
// observers.  It exists for "advance time by shifting persisted timestamps" (DESIGN C21/C22);
// it must not be used to model writes of the system under test.
func (s *Store) Mutate(key model.Key, f func(v any) any) error {
	path, err := model.KeyToDefaultPath(key)
	if err != nil {
		return err
	}
	s.mu.Lock()
	defer s.mu.Unlock()
	e, ok := s.data[path]
	if !ok {
		return cerrors.ErrorResourceDoesNotExist{Identifier: key}
	}
	v, err := model.ParseValue(key, e.val)
	if err != nil {
		return err
	}
	nv := f(v)
	b, err := model.SerializeValue(&model.KVPair{Key: key, Value: nv})
	if err != nil {
		return err
	}
	e.val = b
	return nil
}

// ---------------------------------------------------------------------------------------
// core operations (no gating)

func revString(r int64) string { return strconv.FormatInt(r, 10) }

func parseRev(key model.Key, rev string) (int64, error) {
	r, err := strconv.ParseInt(rev, 10, 64)
	if err != nil {
		return 0, cerrors.ErrorValidation{ErroredFields: []cerrors.ErroredField{{Name: "ResourceVersion", Value: rev}}}
	}
	return r, nil
}

// prepForWrite / prepForReturn mirror the etcdv3 backend: v3 BlockAffinity resources are
// stored as internalapi objects.
func prepForWrite(d *model.KVPair) any {
	if value, ok := d.Value.(*apiv3.BlockAffinity); ok {
		v1Obj := internalapi.NewBlockAffinity()
		v1Obj.ObjectMeta = value.ObjectMeta
		v1Obj.Spec = internalapi.BlockAffinitySpec{
			State:   string(value.Spec.State),
			Node:    value.Spec.Node,
			Type:    value.Spec.Type,
			CIDR:    value.Spec.CIDR,
			Deleted: fmt.Sprintf("%t", value.Spec.Deleted),
		}
		return v1Obj
	}
	return d.Value
}

func prepForReturn(v any) (any, error) {
	if value, ok := v.(*internalapi.BlockAffinity); ok {
		v3Obj := apiv3.NewBlockAffinity()
		v3Obj.ObjectMeta = value.ObjectMeta
		deleted, err := strconv.ParseBool(value.Spec.Deleted)
		if err != nil {
			return nil, fmt.Errorf("error parsing BlockAffinity.Spec.Deleted field: %w", err)
		}
		v3Obj.Spec = apiv3.BlockAffinitySpec{
			State:   apiv3.BlockAffinityState(value.Spec.State),
			Node:    value.Spec.Node,
			Type:    value.Spec.Type,
			CIDR:    value.Spec.CIDR,
			Deleted: deleted,
		}
		return v3Obj, nil
	}
	return v, nil
}

func serialize(d *model.KVPair) (string, []byte, error) {
	path, err := model.KeyToDefaultPath(d.Key)
	if err != nil {
		return "", nil, cerrors.ErrorDatastoreError{Err: err, Identifier: d.Key}
	}
	b, err := model.SerializeValue(&model.KVPair{Key: d.Key, Value: prepForWrite(d)})
	if err != nil {
		return "", nil, cerrors.ErrorDatastoreError{Err: err, Identifier: d.Key}
	}
	return path, b, nil
}

func parse(key model.Key, b []byte) (any, error) {
	v, err := model.ParseValue(key, b)
	if err != nil {
		return nil, cerrors.ErrorParsingDatastoreEntry{RawKey: key.String(), RawValue: string(b), Err: err}
	}
	return prepForReturn(v)
}

func (s *Store) kvp(key model.Key, e *entry) (*model.KVPair, error) {
	v, err := parse(key, e.val)
	if err != nil {
		return nil, err
	}
	return &model.KVPair{Key: key, Value: v, Revision: revString(e.modRev)}, nil
}

func (s *Store) notifyLocked(c *callInfo, method string, key model.Key, path string, old, new []byte) {
	if len(s.observers) == 0 {
		return
	}
	ev := WriteEvent{Method: method, Key: key, Path: path, Rev: s.rev}
	if c != nil {
		ev.Op, ev.CallID = c.op, c.id
	}
	if old != nil {
		ev.Old, _ = parse(key, old)
	}
	if new != nil {
		ev.New, _ = parse(key, new)
	}
	for _, f := range s.observers {
		f(ev)
	}
}

type writeMode int

const (
	wmCreate writeMode = iota
	wmUpdate
	wmApply
)

func (s *Store) put(c *callInfo, mode writeMode, d *model.KVPair) (*model.KVPair, error) {
	path, b, err := serialize(d)
	if err != nil {
		return nil, err
	}
	var rev int64
	if mode == wmUpdate && d.Revision != "" {
		if rev, err = parseRev(d.Key, d.Revision); err != nil {
			return nil, err
		}
	}
	s.mu.Lock()
	defer s.mu.Unlock()
	cur, exists := s.data[path]
	method := "Apply"
	switch mode {
	case wmCreate:
		method = "Create"
		if exists {
			existing, _ := s.kvp(d.Key, cur)
			return existing, cerrors.ErrorResourceAlreadyExists{Identifier: d.Key}
		}
	case wmUpdate:
		method = "Update"
		if !exists {
			return nil, cerrors.ErrorResourceDoesNotExist{Identifier: d.Key}
		}
		if d.Revision != "" && cur.modRev != rev {
			s.conflicts++
			existing, _ := s.kvp(d.Key, cur)
			return existing, cerrors.ErrorResourceUpdateConflict{Identifier: d.Key}
		}
	}
	var old []byte
	if exists {
		old = cur.val
	}
	s.rev++
	ne := &entry{val: b, modRev: s.rev}
	s.data[path] = ne
	s.notifyLocked(c, method, d.Key, path, old, b)
	return s.kvp(d.Key, ne)
}

func (s *Store) del(c *callInfo, key model.Key, revision string) (*model.KVPair, error) {
	path, err := model.KeyToDefaultDeletePath(key)
	if err != nil {
		return nil, err
	}
	var rev int64
	if revision != "" {
		if rev, err = parseRev(key, revision); err != nil {
			return nil, err
		}
	}
	s.mu.Lock()
	defer s.mu.Unlock()
	cur, exists := s.data[path]
	if !exists {
		return nil, cerrors.ErrorResourceDoesNotExist{Identifier: key}
	}
	if revision != "" && cur.modRev != rev {
		s.conflicts++
		latest, err := s.kvp(key, cur)
		if err != nil {
			return nil, err
		}
		return latest, cerrors.ErrorResourceUpdateConflict{Identifier: key}
	}
	delete(s.data, path)
	s.rev++
	s.notifyLocked(c, "Delete", key, path, cur.val, nil)
	prev, _ := s.kvp(key, cur)
	return prev, nil
}

func (s *Store) get(key model.Key) (*model.KVPair, error) {
	path, err := model.KeyToDefaultPath(key)
	if err != nil {
		return nil, err
	}
	s.mu.Lock()
	defer s.mu.Unlock()
	cur, exists := s.data[path]
	if !exists {
		return nil, cerrors.ErrorResourceDoesNotExist{Identifier: key}
	}
	return s.kvp(key, cur)
}

func listRoot(l model.ListInterface) (root string, exact bool) {
	root = model.ListOptionsToDefaultPathRoot(l)
	if model.IsListOptionsLastSegmentPrefix(l) {
		return root, false
	}
	if model.ListOptionsIsFullyQualified(l) {
		return root, true
	}
	if !strings.HasSuffix(root, "/") {
		root += "/"
	}
	return root, false
}

func (s *Store) list(l model.ListInterface) (*model.KVPairList, error) {
	root, exact := listRoot(l)
	s.mu.Lock()
	defer s.mu.Unlock()
	out := []*model.KVPair{}
	for _, p := range s.sortedPathsLocked(root) {
		if exact && p != root {
			continue
		}
		k := l.KeyFromDefaultPath(p)
		if k == nil {
			continue
		}
		kv, err := s.kvp(k, s.data[p])
		if err != nil {
			continue // like the etcd backend: unparseable entries are skipped
		}
		out = append(out, kv)
	}
	if ls, ok := l.(model.LabelSelectingListInterface); ok {
		if sel := ls.GetLabelSelector(); sel != nil {
			filtered := out[:0]
			for _, kv := range out {
				if labeled, ok := kv.Value.(metav1.Object); ok && sel.Matches(labels.Set(labeled.GetLabels())) {
					filtered = append(filtered, kv)
				}
			}
			out = filtered
		}
	}
	return &model.KVPairList{KVPairs: out, Revision: revString(s.rev)}, nil
}

// ---------------------------------------------------------------------------------------
// Client

// Client implements bapi.Client on a Store.
type Client struct {
	store *Store
	op    *Op // bound operation (Op.Client()); nil for the shared client
}

var _ bapi.Client = (*Client)(nil)

// ErrInjected is wrapped by every injected transient error; ErrCrashed by every call made
// by an operation after it was crashed.
var (
	ErrInjected = errors.New("memds: injected transient datastore error")
	ErrCrashed  = errors.New("memds: operation crashed (calls have no effect)")
)

func keyPath(key model.Key) string {
	p, err := model.KeyToDefaultPath(key)
	if err != nil {
		return "?" + key.String()
	}
	return p
}

func (c *Client) opFor(ctx context.Context) *Op {
	if c.op != nil {
		return c.op
	}
	if ctx != nil {
		if op, ok := ctx.Value(opCtxKey{}).(*Op); ok {
			return op
		}
	}
	return nil
}

// do runs one client call through the gate (if the call belongs to a scheduled operation)
// and applies the fault decision.  exec performs the real store operation.
func (c *Client) do(ctx context.Context, method string, key model.Key, path string, cas, write bool,
	exec func(ci *callInfo) (*model.KVPair, error)) (*model.KVPair, error) {
	op := c.opFor(ctx)
	if op == nil {
		return exec(nil)
	}
	ci, fault, ok := op.sched.enter(op, method, path, cas, write)
	if !ok {
		return nil, cerrors.ErrorDatastoreError{Err: ErrCrashed, Identifier: key}
	}
	switch fault {
	case FaultConflict:
		if cas {
			op.sched.finish(ci, "injected-conflict")
			return nil, cerrors.ErrorResourceUpdateConflict{Identifier: key}
		}
	case FaultError:
		op.sched.finish(ci, "injected-error")
		return nil, cerrors.ErrorDatastoreError{Err: ErrInjected, Identifier: key}
	case FaultCrashBefore:
		op.sched.crash(op)
		op.sched.finish(ci, "crash-before")
		return nil, cerrors.ErrorDatastoreError{Err: ErrCrashed, Identifier: key}
	case FaultCrashAfter:
		_, err := exec(ci)
		op.sched.crash(op)
		op.sched.finish(ci, "crash-after:"+resultKind(err))
		return nil, cerrors.ErrorDatastoreError{Err: ErrCrashed, Identifier: key}
	case FaultErrorAfter:
		_, err := exec(ci)
		op.sched.finish(ci, "error-after:"+resultKind(err))
		return nil, cerrors.ErrorDatastoreError{Err: ErrInjected, Identifier: key}
	}
	kv, err := exec(ci)
	op.sched.finish(ci, resultKind(err))
	return kv, err
}

func resultKind(err error) string {
	switch err.(type) {
	case nil:
		return "ok"
	case cerrors.ErrorResourceUpdateConflict:
		return "conflict"
	case cerrors.ErrorResourceDoesNotExist:
		return "notfound"
	case cerrors.ErrorResourceAlreadyExists:
		return "exists"
	}
	return "error"
}

func (c *Client) Create(ctx context.Context, d *model.KVPair) (*model.KVPair, error) {
	return c.do(ctx, "Create", d.Key, keyPath(d.Key), false, true, func(ci *callInfo) (*model.KVPair, error) {
		return c.store.put(ci, wmCreate, d)
	})
}

func (c *Client) Update(ctx context.Context, d *model.KVPair) (*model.KVPair, error) {
	return c.do(ctx, "Update", d.Key, keyPath(d.Key), d.Revision != "", true, func(ci *callInfo) (*model.KVPair, error) {
		return c.store.put(ci, wmUpdate, d)
	})
}

func (c *Client) Apply(ctx context.Context, d *model.KVPair) (*model.KVPair, error) {
	return c.do(ctx, "Apply", d.Key, keyPath(d.Key), false, true, func(ci *callInfo) (*model.KVPair, error) {
		return c.store.put(ci, wmApply, d)
	})
}

func (c *Client) DeleteKVP(ctx context.Context, kvp *model.KVPair) (*model.KVPair, error) {
	return c.Delete(ctx, kvp.Key, kvp.Revision)
}

func (c *Client) Delete(ctx context.Context, key model.Key, revision string) (*model.KVPair, error) {
	return c.do(ctx, "Delete", key, keyPath(key), revision != "", true, func(ci *callInfo) (*model.KVPair, error) {
		return c.store.del(ci, key, revision)
	})
}

func (c *Client) Get(ctx context.Context, key model.Key, revision string) (*model.KVPair, error) {
	return c.do(ctx, "Get", key, keyPath(key), false, false, func(ci *callInfo) (*model.KVPair, error) {
		return c.store.get(key)
	})
}

func (c *Client) List(ctx context.Context, l model.ListInterface, revision string) (*model.KVPairList, error) {
	var out *model.KVPairList
	root, _ := listRoot(l)
	_, err := c.do(ctx, "List", nil, fmt.Sprintf("%s(%T)", root, l), false, false, func(ci *callInfo) (*model.KVPair, error) {
		var err error
		out, err = c.store.list(l)
		return nil, err
	})
	if err != nil {
		return nil, err
	}
	return out, nil
}

func (c *Client) Watch(ctx context.Context, l model.ListInterface, options bapi.WatchOptions) (bapi.WatchInterface, error) {
	return nil, cerrors.ErrorOperationNotSupported{Operation: "Watch", Identifier: l}
}

func (c *Client) EnsureInitialized() error { return nil }

func (c *Client) Clean() error {
	c.store.mu.Lock()
	defer c.store.mu.Unlock()
	c.store.data = map[string]*entry{}
	c.store.rev++
	return nil
}

func (c *Client) Close() error { return nil }
