package memds

// Deterministic step scheduler and fault plan for the in-memory datastore.
//
// An *operation* (Op) is a piece of code under test started with Scheduler.Go.  Every
// datastore call it makes - from its own goroutine or from goroutines it spawns, as long as
// the call's context descends from the operation's context (or the call goes through
// Op.Client()) - parks at a gate.  The test alternates
//
//	calls := sched.Quiesce()          // wait until nothing can move; parked calls sorted by stable identity
//	sched.Release(calls[i], fault)    // let exactly one call proceed, with a fault decision
//
// so at most one goroutine of the system under test runs at any time and the interleaving is
// a generated value.  Call identity is (operation id, goroutine lineage, per-lineage call
// index, method, key path); arrival order never matters.
//
// Faults (drawn by the test):
//
//	FaultNone         the call executes normally
//	FaultConflict     compare-and-swap calls fail with ErrorResourceUpdateConflict, no effect
//	                  (ignored for calls that carry no revision)
//	FaultError        the call fails with ErrorDatastoreError{ErrInjected}, no effect
//	FaultErrorAfter   the call takes effect but the caller is told it failed (lost reply)
//	FaultCrashBefore  the operation dies at this call: the call and every later call of the
//	                  operation have no effect
//	FaultCrashAfter   the call takes effect, then the operation dies
//
// A crashed operation is not left blocked (that would leak goroutines and wedge code that
// waits for its helpers): its goroutines keep running as "zombies" whose datastore calls all
// fail immediately without effect and without being scheduled.  From the datastore's point
// of view - the only thing the oracles observe - this is identical to the process stopping
// at the crash point.  Whatever a crashed operation returns must be ignored by the test.

import (
	"context"
	"fmt"
	"runtime"
	"runtime/debug"
	"sort"
	"strings"
	"sync"
	"time"
)

type Fault int

const (
	FaultNone Fault = iota
	FaultConflict
	FaultError
	FaultCrashBefore
	FaultCrashAfter
	FaultErrorAfter
	faultAbort // internal: the operation crashed while this call was parked
)

func (f Fault) String() string {
	switch f {
	case FaultNone:
		return "none"
	case FaultConflict:
		return "conflict"
	case FaultError:
		return "error"
	case FaultCrashBefore:
		return "crash-before"
	case FaultCrashAfter:
		return "crash-after"
	case FaultErrorAfter:
		return "error-after"
	}
	return "abort"
}

type opCtxKey struct{}

type mainState int

const (
	msRunning mainState = iota
	msParked
	msDone
)

// Op is one scheduled operation.
type Op struct {
	ID  string
	Tag any // free for the harness

	sched    *Scheduler
	ctx      context.Context
	mainGid  int64
	state    mainState
	crashed  bool
	done     chan struct{}
	lineages map[int64]string
	firsts   map[string]int
	seq      map[string]int
	panicVal any
	panicStk string
}

// Context returns the context that marks datastore calls as belonging to this operation.
func (op *Op) Context() context.Context { return op.ctx }

// Client returns a client whose calls always belong to this operation, for code under test
// that does not propagate contexts.
func (op *Op) Client() *Client { return &Client{store: op.sched.store, op: op} }

// Done reports whether the operation's function has returned.
func (op *Op) Done() bool {
	select {
	case <-op.done:
		return true
	default:
		return false
	}
}

// Crashed reports whether a crash fault was applied to the operation.
func (op *Op) Crashed() bool {
	op.sched.mu.Lock()
	defer op.sched.mu.Unlock()
	return op.crashed
}

// Panic returns the recovered panic value (and stack) if the operation's main goroutine
// panicked.
func (op *Op) Panic() (any, string) {
	op.sched.mu.Lock()
	defer op.sched.mu.Unlock()
	return op.panicVal, op.panicStk
}

type callInfo struct {
	op      *Op
	id      string
	method  string
	path    string
	cas     bool
	write   bool
	child   bool
	release chan Fault
	fault   Fault
}

// Call is the test's view of a parked datastore call.
type Call struct {
	ID     string // stable identity
	Op     *Op
	Method string // Create | Update | Apply | Delete | Get | List
	Path   string // key path (List: path root plus options type)
	CAS    bool   // carries a revision: FaultConflict applies
	Write  bool   // mutating call: FaultCrashAfter / FaultErrorAfter differ from the "before" variants
	Child  bool   // made by a goroutine spawned by the operation, not its main goroutine
	ci     *callInfo
}

// CallRecord is one entry of the execution trace (in the order the calls were released).
type CallRecord struct {
	ID     string
	Fault  Fault
	Result string // ok | conflict | notfound | exists | error | injected-conflict | injected-error | crash-before | crash-after:<r> | error-after:<r>
}

type Scheduler struct {
	store *Store

	mu     sync.Mutex
	ops    []*Op
	parked []*callInfo
	trace  []CallRecord
	family map[int64]bool // goroutine ids known to belong to operations
	wake   chan struct{}

	// Strict makes Quiesce confirm with a goroutine dump even when every operation's main
	// goroutine is parked or done (needed only if operations spawn goroutines that outlive
	// the spawner's next datastore call).
	Strict bool
	// Timeout bounds one Quiesce call without any progress event (default 120s); reaching it is
	// an error (inconclusive), never a scheduling decision.
	Timeout time.Duration

	dumps   int64
	dumpBuf []byte
}

func NewScheduler(store *Store) *Scheduler {
	return &Scheduler{store: store, family: map[int64]bool{}, wake: make(chan struct{}, 1)}
}

func (sc *Scheduler) signal() {
	select {
	case sc.wake <- struct{}{}:
	default:
	}
}

// Go starts fn as a new operation.  id must be unique within the scheduler and must not
// depend on timing (it is the first component of every call identity).
func (sc *Scheduler) Go(id string, fn func(ctx context.Context)) *Op {
	op := &Op{ID: id, sched: sc, done: make(chan struct{}), lineages: map[int64]string{},
		firsts: map[string]int{}, seq: map[string]int{}}
	op.ctx = context.WithValue(context.Background(), opCtxKey{}, op)
	started := make(chan struct{})
	sc.mu.Lock()
	sc.ops = append(sc.ops, op)
	sc.mu.Unlock()
	go func() {
		gid := curGoid()
		sc.mu.Lock()
		op.mainGid = gid
		sc.family[gid] = true
		sc.mu.Unlock()
		close(started)
		defer func() {
			r := recover()
			sc.mu.Lock()
			if r != nil {
				op.panicVal = r
				op.panicStk = string(debug.Stack())
			}
			op.state = msDone
			delete(sc.family, gid)
			close(op.done) // before the unlock: whoever sees msDone must also see Done()
			sc.mu.Unlock()
			sc.signal()
		}()
		fn(op.ctx)
	}()
	<-started
	return op
}

// enter parks the calling goroutine until the test releases the call.  ok=false means the
// operation is dead and the call must fail without effect.
func (sc *Scheduler) enter(op *Op, method, path string, cas, write bool) (*callInfo, Fault, bool) {
	gid := curGoid()
	sc.mu.Lock()
	if op.crashed {
		sc.mu.Unlock()
		return nil, 0, false
	}
	lineage := "m"
	child := gid != op.mainGid
	if child {
		var ok bool
		if lineage, ok = op.lineages[gid]; !ok {
			first := method + ":" + path
			n := op.firsts[first]
			op.firsts[first] = n + 1
			lineage = fmt.Sprintf("c[%s#%d]", first, n)
			op.lineages[gid] = lineage
			sc.family[gid] = true
		}
	}
	n := op.seq[lineage]
	op.seq[lineage] = n + 1
	ci := &callInfo{op: op, method: method, path: path, cas: cas, write: write, child: child,
		id: fmt.Sprintf("%s|%s|%03d|%s|%s", op.ID, lineage, n, method, path), release: make(chan Fault, 1)}
	sc.parked = append(sc.parked, ci)
	if !child {
		op.state = msParked
	}
	sc.mu.Unlock()
	sc.signal()
	f := <-ci.release
	if f == faultAbort {
		return nil, 0, false
	}
	ci.fault = f
	return ci, f, true
}

func (sc *Scheduler) finish(ci *callInfo, result string) {
	sc.mu.Lock()
	sc.trace = append(sc.trace, CallRecord{ID: ci.id, Fault: ci.fault, Result: result})
	sc.mu.Unlock()
}

// crash turns the operation into a zombie and aborts its other parked calls.
func (sc *Scheduler) crash(op *Op) {
	sc.mu.Lock()
	defer sc.mu.Unlock()
	sc.crashLocked(op)
}

func (sc *Scheduler) crashLocked(op *Op) {
	if op.crashed {
		return
	}
	op.crashed = true
	kept := sc.parked[:0]
	for _, ci := range sc.parked {
		if ci.op == op {
			if !ci.child && op.state == msParked {
				op.state = msRunning
			}
			ci.release <- faultAbort
		} else {
			kept = append(kept, ci)
		}
	}
	sc.parked = kept
}

// Crash kills an operation from the outside (e.g. "the process is killed while idle").
func (sc *Scheduler) Crash(op *Op) { sc.crash(op) }

// Release lets one parked call proceed with the given fault decision.
func (sc *Scheduler) Release(c *Call, f Fault) {
	sc.mu.Lock()
	found := false
	for i, ci := range sc.parked {
		if ci == c.ci {
			sc.parked = append(sc.parked[:i], sc.parked[i+1:]...)
			found = true
			break
		}
	}
	if !found {
		sc.mu.Unlock()
		panic("memds: Release of a call that is not parked: " + c.ID)
	}
	if !c.ci.child {
		c.Op.state = msRunning
	}
	sc.mu.Unlock()
	c.ci.release <- f
}

// Quiesce blocks until no goroutine of any operation can make progress without a Release,
// then returns the parked calls sorted by identity.  An empty result means every operation
// has finished (or - if some Op is not Done - that the system under test is deadlocked).
func (sc *Scheduler) Quiesce() ([]*Call, error) {
	timeout := sc.Timeout
	if timeout == 0 {
		timeout = 120 * time.Second
	}
	deadline := time.Now().Add(timeout)
	timer := time.NewTimer(time.Hour)
	defer timer.Stop()
	for {
		// State is decided from events only: every operation's main goroutine reports when it
		// parks in a datastore call and when it finishes.  No amount of elapsed time is ever
		// taken to mean "parked".
		sc.mu.Lock()
		settled, childWaiting, unfinished := true, false, false
		for _, op := range sc.ops {
			if op.state == msRunning {
				settled = false
			}
			if op.state != msDone {
				unfinished = true
			}
		}
		for _, ci := range sc.parked {
			if ci.child && ci.op.state == msRunning {
				childWaiting = true
			}
		}
		nParked := len(sc.parked)
		sc.mu.Unlock()
		// Nothing parked while something is unfinished is never quiescence: either a goroutine
		// is still on its way to its next call, or the system under test is deadlocked (which
		// ends in the timeout error below, with a goroutine dump).
		if nParked > 0 || !unfinished {
			if settled && !sc.Strict {
				return sc.parkedCalls(), nil
			}
			// A main goroutine that waits for helper goroutines it spawned (ReleaseIPs: one per
			// block) never reports "parked" itself.  Only then - a helper is parked while its
			// main goroutine counts as running - goroutine states are inspected: quiescent iff
			// every goroutine of every operation is blocked on another goroutine, in two
			// consecutive dumps with no event in between.
			if settled || childWaiting {
				if sc.allBlocked() {
					select {
					case <-sc.wake:
						continue
					default:
					}
					runtime.Gosched()
					if sc.allBlocked() {
						select {
						case <-sc.wake:
							continue
						default:
						}
						return sc.parkedCalls(), nil
					}
				}
			}
		}
		if time.Now().After(deadline) {
			return nil, fmt.Errorf("memds: no quiescence after %v (deadlock in the code under test, or an overloaded machine)\n%s", timeout, sc.DebugState())
		}
		// Wait for the next event.  The timer only re-polls the helper-goroutine case above (a
		// helper's progress produces an event only when it parks again) and the deadline.
		if !timer.Stop() {
			select {
			case <-timer.C:
			default:
			}
		}
		poll := 50 * time.Millisecond
		if childWaiting {
			poll = 200 * time.Microsecond
		}
		timer.Reset(poll)
		select {
		case <-sc.wake:
		case <-timer.C:
		}
	}
}

func (sc *Scheduler) parkedCalls() []*Call {
	sc.mu.Lock()
	defer sc.mu.Unlock()
	out := make([]*Call, 0, len(sc.parked))
	for _, ci := range sc.parked {
		out = append(out, &Call{ID: ci.id, Op: ci.op, Method: ci.method, Path: ci.path, CAS: ci.cas,
			Write: ci.write, Child: ci.child, ci: ci})
	}
	sort.Slice(out, func(i, j int) bool { return out[i].ID < out[j].ID })
	return out
}

// DebugState describes every operation and parked call plus a goroutine dump (diagnostics for
// "deadlock" reports).
func (sc *Scheduler) DebugState() string {
	sc.mu.Lock()
	var sb strings.Builder
	for _, op := range sc.ops {
		fmt.Fprintf(&sb, "op %s gid=%d state=%d crashed=%v done=%v\n", op.ID, op.mainGid, op.state, op.crashed, op.Done())
	}
	for _, ci := range sc.parked {
		fmt.Fprintf(&sb, "parked %s child=%v\n", ci.id, ci.child)
	}
	fmt.Fprintf(&sb, "family=%v dumps=%d\n", sc.family, sc.dumps)
	sc.mu.Unlock()
	sb.WriteString(allStacks())
	return sb.String()
}

// Trace returns a copy of the execution trace so far.
func (sc *Scheduler) Trace() []CallRecord {
	sc.mu.Lock()
	defer sc.mu.Unlock()
	return append([]CallRecord(nil), sc.trace...)
}

// Dumps is the number of goroutine dumps Quiesce needed (diagnostics).
func (sc *Scheduler) Dumps() int64 {
	sc.mu.Lock()
	defer sc.mu.Unlock()
	return sc.dumps
}

// Shutdown crashes every unfinished operation and waits for all operation goroutines to
// return.  Call it at the end of every case.
func (sc *Scheduler) Shutdown() error {
	sc.mu.Lock()
	ops := append([]*Op(nil), sc.ops...)
	for _, op := range ops {
		if op.state != msDone {
			sc.crashLocked(op)
		}
	}
	sc.mu.Unlock()
	timeout := sc.Timeout
	if timeout == 0 {
		timeout = 120 * time.Second
	}
	t := time.NewTimer(timeout)
	defer t.Stop()
	for _, op := range ops {
		select {
		case <-op.done:
		case <-t.C:
			return fmt.Errorf("memds: operation %s did not stop within %v; goroutines:\n%s", op.ID, timeout, allStacks())
		}
	}
	return nil
}

// ---------------------------------------------------------------------------------------
// goroutine inspection

func curGoid() int64 {
	var buf [64]byte
	n := runtime.Stack(buf[:], false)
	// "goroutine 123 [running]:..."
	var id int64
	for _, c := range buf[len("goroutine "):n] {
		if c < '0' || c > '9' {
			break
		}
		id = id*10 + int64(c-'0')
	}
	return id
}

func allStacks() string {
	buf := make([]byte, 1<<20)
	n := runtime.Stack(buf, true)
	return string(buf[:n])
}

// dump returns a goroutine dump in a buffer owned by the scheduler (only the goroutine that
// calls Quiesce uses it).
func (sc *Scheduler) dump() []byte {
	if sc.dumpBuf == nil {
		sc.dumpBuf = make([]byte, 64<<10)
	}
	for {
		n := runtime.Stack(sc.dumpBuf, true)
		if n < len(sc.dumpBuf) {
			return sc.dumpBuf[:n]
		}
		sc.dumpBuf = make([]byte, 2*len(sc.dumpBuf))
	}
}

// allBlocked takes a goroutine dump and reports whether every goroutine that belongs to an
// operation (the operations' main goroutines and, transitively, goroutines created by them)
// is blocked.
func (sc *Scheduler) allBlocked() bool {
	dump := string(sc.dump())
	type g struct {
		id, parent int64
		running    bool
	}
	var gs []g
	for _, blk := range strings.Split(dump, "\n\n") {
		if !strings.HasPrefix(blk, "goroutine ") {
			continue
		}
		var cur g
		rest := blk[len("goroutine "):]
		i := 0
		for i < len(rest) && rest[i] >= '0' && rest[i] <= '9' {
			cur.id = cur.id*10 + int64(rest[i]-'0')
			i++
		}
		nl := strings.IndexByte(rest, '\n')
		head := rest
		if nl >= 0 {
			head = rest[:nl]
		}
		state := ""
		if lb := strings.IndexByte(head, '['); lb >= 0 {
			if rb := strings.IndexByte(head[lb:], ']'); rb >= 0 {
				state = head[lb+1 : lb+rb]
			}
		}
		if c := strings.IndexByte(state, ','); c >= 0 {
			state = state[:c]
		}
		// Only states in which a goroutine waits for another goroutine count as blocked;
		// anything else (running, runnable, syscall, sleep, GC assist wait, ...) resumes on
		// its own.
		switch state {
		case "chan receive", "chan send", "select", "semacquire", "sync.Mutex.Lock", "sync.RWMutex.Lock",
			"sync.RWMutex.RLock", "sync.Cond.Wait", "sync.WaitGroup.Wait", "chan receive (nil chan)",
			"chan send (nil chan)", "select (no cases)":
		default:
			cur.running = true
		}
		if k := strings.LastIndex(blk, " in goroutine "); k >= 0 {
			p := blk[k+len(" in goroutine "):]
			for j := 0; j < len(p) && p[j] >= '0' && p[j] <= '9'; j++ {
				cur.parent = cur.parent*10 + int64(p[j]-'0')
			}
		}
		gs = append(gs, cur)
	}
	sc.mu.Lock()
	defer sc.mu.Unlock()
	sc.dumps++
	for changed := true; changed; {
		changed = false
		for _, x := range gs {
			if !sc.family[x.id] && sc.family[x.parent] {
				sc.family[x.id] = true
				changed = true
			}
		}
	}
	live := map[int64]bool{}
	for _, x := range gs {
		live[x.id] = true
		if sc.family[x.id] && x.running {
			return false
		}
	}
	// Forget goroutines that have exited (ids are never reused, but keep the set small).
	for id := range sc.family {
		if !live[id] {
			keep := false
			for _, op := range sc.ops {
				if op.mainGid == id && op.state != msDone {
					keep = true
				}
			}
			if !keep {
				delete(sc.family, id)
			}
		}
	}
	return true
}
