// Package cnative builds, at test time, native (host) executables from the CURRENT
// $VERIF_REPO/felix/bpf-gpl sources plus a small driver, and talks to them over
// stdin/stdout (one request line -> one response line).
//
// Pipeline (verified during design, DESIGN.md §3.7):
//
//  1. the top-level *.h / *.c files of $VERIF_REPO/felix/bpf-gpl are copied into
//     $VERIF_BUILD/cnative/<tag>/src; files in $VERIF_C_OVERRIDE_DIR (if set) shadow
//     same-named files (used only by sensitivity runs that break a C header);
//  2. `clang -E` with three stub headers replacing libbpf's (kit/cnative/c/stubs);
//  3. the BPF inline-assembly statements (`asm (...)`) are removed from the preprocessed
//     text;
//  4. ordinary host compile + link.
//
// Any failure in 1-4 is a *BuildError: harnesses must turn it into a
// "VERIF-INCONCLUSIVE:" failure (see Inconclusive), never into a verdict.
package cnative

import (
	"bufio"
	"bytes"
	"errors"
	"fmt"
	"io"
	"os"
	"os/exec"
	"path/filepath"
	"sort"
	"strings"
	"sync"
)

// OverrideEnv names the environment variable holding a directory whose files shadow
// same-named files of felix/bpf-gpl when compiling (sensitivity runs only).
const OverrideEnv = "VERIF_C_OVERRIDE_DIR"

type BuildError struct {
	Stage string
	Msg   string
}

func (e *BuildError) Error() string { return "cnative " + e.Stage + ": " + e.Msg }

// TB is the subset of testing.TB / rapid.T needed here.
type TB interface {
	Fatalf(format string, args ...any)
}

// Inconclusive fails the test with the marker the driver maps to exit 2.
func Inconclusive(t TB, err error) {
	t.Fatalf("VERIF-INCONCLUSIVE: native helper unavailable for this tree: %v", err)
}

func env(name string) (string, error) {
	v := os.Getenv(name)
	if v == "" {
		return "", &BuildError{"env", name + " is not set (run through /verif/check)"}
	}
	return v, nil
}

// KitCDir is the directory holding the stub headers and driver sources.
func KitCDir() (string, error) {
	d, err := env("VERIF_DIR")
	if err != nil {
		return "", err
	}
	return filepath.Join(d, "kit", "cnative", "c"), nil
}

// workDir returns (and creates) a per-process build directory below $VERIF_BUILD.
func workDir(tag string) (string, error) {
	b, err := env("VERIF_BUILD")
	if err != nil {
		return "", err
	}
	if strings.HasPrefix(b, "/tmp") || strings.HasPrefix(b, "/repo") {
		return "", &BuildError{"env", "VERIF_BUILD must not be under /tmp or /repo: " + b}
	}
	shard := os.Getenv("VERIF_SHARD")
	if shard == "" {
		shard = "x"
	}
	d := filepath.Join(b, "cnative", fmt.Sprintf("%s-s%s-p%d", tag, shard, os.Getpid()))
	if err := os.MkdirAll(d, 0o755); err != nil {
		return "", &BuildError{"mkdir", err.Error()}
	}
	return d, nil
}

func copyFile(dst, src string) error {
	b, err := os.ReadFile(src)
	if err != nil {
		return err
	}
	return os.WriteFile(dst, b, 0o644)
}

// prepareSources copies the current felix/bpf-gpl top-level sources (and overrides) to dir.
func prepareSources(dir string) ([]string, error) {
	repo, err := env("VERIF_REPO")
	if err != nil {
		return nil, err
	}
	src := filepath.Join(repo, "felix", "bpf-gpl")
	ents, err := os.ReadDir(src)
	if err != nil {
		return nil, &BuildError{"sources", err.Error()}
	}
	if err := os.MkdirAll(dir, 0o755); err != nil {
		return nil, &BuildError{"mkdir", err.Error()}
	}
	n := 0
	for _, e := range ents {
		if e.IsDir() || !(strings.HasSuffix(e.Name(), ".h") || strings.HasSuffix(e.Name(), ".c")) {
			continue
		}
		if err := copyFile(filepath.Join(dir, e.Name()), filepath.Join(src, e.Name())); err != nil {
			return nil, &BuildError{"sources", err.Error()}
		}
		n++
	}
	if n == 0 {
		return nil, &BuildError{"sources", "no C sources in " + src}
	}
	var shadowed []string
	if ov := os.Getenv(OverrideEnv); ov != "" {
		oents, err := os.ReadDir(ov)
		if err != nil {
			return nil, &BuildError{"override", err.Error()}
		}
		for _, e := range oents {
			if e.IsDir() {
				continue
			}
			if err := copyFile(filepath.Join(dir, e.Name()), filepath.Join(ov, e.Name())); err != nil {
				return nil, &BuildError{"override", err.Error()}
			}
			shadowed = append(shadowed, e.Name())
		}
		sort.Strings(shadowed)
	}
	return shadowed, nil
}

// StripAsm removes every `asm ( ... )` statement head (keyword `asm`, not `__asm__`) with its
// balanced parenthesised body from preprocessed C text.  The trailing `;` stays behind as
// an empty statement.
func StripAsm(s string) (string, int, error) {
	var out strings.Builder
	n := 0
	i := 0
	isIdent := func(c byte) bool {
		return c == '_' || (c >= '0' && c <= '9') || (c >= 'a' && c <= 'z') || (c >= 'A' && c <= 'Z')
	}
	for i < len(s) {
		j := strings.Index(s[i:], "asm")
		if j < 0 {
			out.WriteString(s[i:])
			break
		}
		j += i
		k := j + 3
		if (j > 0 && isIdent(s[j-1])) || (k < len(s) && isIdent(s[k])) {
			out.WriteString(s[i:k])
			i = k
			continue
		}
		for k < len(s) && (s[k] == ' ' || s[k] == '\t' || s[k] == '\n') {
			k++
		}
		if k >= len(s) || s[k] != '(' {
			out.WriteString(s[i:k])
			i = k
			continue
		}
		// balanced scan
		depth := 0
		m := k
		for ; m < len(s); m++ {
			c := s[m]
			if c == '"' {
				m++
				for m < len(s) && s[m] != '"' {
					if s[m] == '\\' {
						m++
					}
					m++
				}
				continue
			}
			if c == '(' {
				depth++
			} else if c == ')' {
				depth--
				if depth == 0 {
					break
				}
			}
		}
		if m >= len(s) {
			return "", n, errors.New("unbalanced asm(...) block")
		}
		out.WriteString(s[i:j])
		out.WriteString(" /* asm removed */ ")
		n++
		i = m + 1
	}
	return out.String(), n, nil
}

type Spec struct {
	// Tag names the build (directory and executable name); unique per driver+variant.
	Tag string
	// Driver is either a file name inside kit/cnative/c or, if DriverText != "", the name
	// under which DriverText is written into the work dir.
	Driver     string
	DriverText string
	// Defines are passed as -D<x>.
	Defines []string
}

type Built struct {
	Exe      string
	Dir      string
	Shadowed []string // files taken from $VERIF_C_OVERRIDE_DIR
}

func run(stage string, dir string, name string, args ...string) error {
	cmd := exec.Command(name, args...)
	cmd.Dir = dir
	var buf bytes.Buffer
	cmd.Stdout = &buf
	cmd.Stderr = &buf
	if err := cmd.Run(); err != nil {
		msg := buf.String()
		if len(msg) > 4000 {
			msg = msg[:4000] + "\n...[truncated]"
		}
		return &BuildError{stage, fmt.Sprintf("%s %s: %v\n%s", name, strings.Join(args, " "), err, msg)}
	}
	return nil
}

var (
	buildMu    sync.Mutex
	buildCache = map[string]*Built{}
)

// Build compiles the driver against the current felix/bpf-gpl sources.  Results are cached
// per process (several test functions of one test binary share one native build).
func Build(spec Spec) (*Built, error) {
	buildMu.Lock()
	defer buildMu.Unlock()
	key := spec.Tag + "\x00" + spec.Driver + "\x00" + spec.DriverText + "\x00" + strings.Join(spec.Defines, ",")
	if b, ok := buildCache[key]; ok {
		return b, nil
	}
	b, err := build(spec)
	if err != nil {
		return nil, err
	}
	buildCache[key] = b
	return b, nil
}

func build(spec Spec) (*Built, error) {
	cdir, err := KitCDir()
	if err != nil {
		return nil, err
	}
	wd, err := workDir(spec.Tag)
	if err != nil {
		return nil, err
	}
	srcDir := filepath.Join(wd, "src")
	shadowed, err := prepareSources(srcDir)
	if err != nil {
		return nil, err
	}
	driverPath := filepath.Join(cdir, spec.Driver)
	if spec.DriverText != "" {
		driverPath = filepath.Join(wd, spec.Driver)
		if err := os.WriteFile(driverPath, []byte(spec.DriverText), 0o644); err != nil {
			return nil, &BuildError{"write-driver", err.Error()}
		}
	}
	clang, err := exec.LookPath("clang")
	if err != nil {
		return nil, &BuildError{"toolchain", "clang not found"}
	}
	pre := filepath.Join(wd, "driver.i")
	args := []string{"-E", "-o", pre, "-I" + filepath.Join(cdir, "stubs"), "-I" + srcDir, "-I" + cdir}
	for _, d := range spec.Defines {
		args = append(args, "-D"+d)
	}
	args = append(args, driverPath)
	if err := run("preprocess", wd, clang, args...); err != nil {
		return nil, err
	}
	text, err := os.ReadFile(pre)
	if err != nil {
		return nil, &BuildError{"preprocess", err.Error()}
	}
	stripped, _, err := StripAsm(string(text))
	if err != nil {
		return nil, &BuildError{"strip-asm", err.Error()}
	}
	pre2 := filepath.Join(wd, "driver.stripped.i")
	if err := os.WriteFile(pre2, []byte(stripped), 0o644); err != nil {
		return nil, &BuildError{"strip-asm", err.Error()}
	}
	exe := filepath.Join(wd, spec.Tag+".exe")
	// -O0: keep every load/store of the real code; -fno-strict-aliasing: BPF C code is
	// compiled without strict aliasing assumptions upstream too.
	if err := run("compile", wd, clang, "-x", "cpp-output", "-O0", "-w", "-fno-strict-aliasing",
		"-o", exe, pre2); err != nil {
		return nil, err
	}
	return &Built{Exe: exe, Dir: wd, Shadowed: shadowed}, nil
}

// Proc is a running native helper speaking a line protocol.
type Proc struct {
	cmd    *exec.Cmd
	in     io.WriteCloser
	out    *bufio.Reader
	stderr bytes.Buffer
	dead   error
}

func Start(exe string) (*Proc, error) {
	cmd := exec.Command(exe)
	in, err := cmd.StdinPipe()
	if err != nil {
		return nil, &BuildError{"start", err.Error()}
	}
	outp, err := cmd.StdoutPipe()
	if err != nil {
		return nil, &BuildError{"start", err.Error()}
	}
	p := &Proc{cmd: cmd, in: in, out: bufio.NewReaderSize(outp, 1<<20)}
	cmd.Stderr = &p.stderr
	if err := cmd.Start(); err != nil {
		return nil, &BuildError{"start", err.Error()}
	}
	return p, nil
}

// Call sends one request line and reads one response line.  A response starting with
// "ERR " is returned as an error (the helper could not interpret the request).
func (p *Proc) Call(req string) (string, error) {
	if p.dead != nil {
		return "", p.dead
	}
	if strings.ContainsAny(req, "\n") {
		return "", errors.New("cnative: request contains newline")
	}
	if _, err := io.WriteString(p.in, req+"\n"); err != nil {
		p.dead = &BuildError{"io", fmt.Sprintf("write: %v; stderr: %s", err, p.stderr.String())}
		return "", p.dead
	}
	line, err := p.out.ReadString('\n')
	if err != nil {
		p.dead = &BuildError{"io", fmt.Sprintf("read: %v; stderr: %s", err, p.stderr.String())}
		return "", p.dead
	}
	line = strings.TrimRight(line, "\n")
	if strings.HasPrefix(line, "ERR ") {
		return "", errors.New("cnative helper: " + line[4:])
	}
	return line, nil
}

func (p *Proc) Close() {
	if p == nil || p.cmd == nil {
		return
	}
	_ = p.in.Close()
	_ = p.cmd.Wait()
	p.cmd = nil
}

// BuildAndStart is Build followed by Start.
func BuildAndStart(spec Spec) (*Proc, *Built, error) {
	b, err := Build(spec)
	if err != nil {
		return nil, nil, err
	}
	p, err := Start(b.Exe)
	if err != nil {
		return nil, b, err
	}
	return p, b, nil
}
