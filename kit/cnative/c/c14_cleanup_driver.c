/* /verif C14 native driver: runs the REAL process_ccq_entry / conntrack_cleanup from the
 * current felix/bpf-gpl/conntrack_cleanup.c against in-memory maps supplied through the
 * libbpf helper stubs.  Built by verifkit/cnative with -DCALI_COMPILE_FLAGS=512 (and
 * -DIPVER6 for the IPv6 program), exactly the flags the real cleanup object is built with.
 *
 * Line protocol (stdin -> stdout, one response line per request):
 *   sizes                      -> "ok ctk=<n> ctv=<n> ccqk=<n> ccqv=<n>"
 *   reset                      -> "ok"
 *   put ct|ccq <khex> <vhex>   -> "ok"
 *   del ct|ccq <khex>          -> "ok"           (kernel-side change made by the harness, e.g. LRU eviction)
 *   now <ns>                   -> "ok"           (value returned by bpf_ktime_get_ns)
 *   step <khex>                -> run process_ccq_entry on that cleanup-queue entry, as one
 *                                 bpf_for_each_map_elem callback would
 *   run <now>                  -> run the whole conntrack_cleanup program once
 *   dump ct|ccq                -> "ok <khex>=<vhex> ..."
 * step/run answer: "ok cleaned=<n> rc=<n> ops=<op>;<op>;..." where op is one of
 *   L:<map>:<khex>:hit|miss   U:<map>:<khex>:<vhex>   D:<map>:<khex>:ok|miss
 *   M:ct:<khex>:<vhex>  (value modified in place through a lookup pointer; emitted last)
 */
#include <stdarg.h>
#include <stdio.h>
#include <stdlib.h>
#include <string.h>

#include "conntrack_cleanup.c"

#define MM_CAP 512
#define MM_MAXK 64
#define MM_MAXV 256

struct mem_map {
	void *sym;
	const char *name;
	size_t ks, vs;
	int n; /* slots handed out */
	unsigned char keys[MM_CAP][MM_MAXK];
	unsigned char vals[MM_CAP][MM_MAXV];
	unsigned char snap[MM_CAP][MM_MAXV];
	char used[MM_CAP];
};

static struct mem_map g_ct, g_ccq;
static char g_trace[1 << 20];
static size_t g_tlen;
static __u64 g_now;
static unsigned char g_skb[64];

static void tr(const char *fmt, ...)
{
	va_list ap;
	va_start(ap, fmt);
	int n = vsnprintf(g_trace + g_tlen, sizeof(g_trace) - g_tlen, fmt, ap);
	va_end(ap);
	if (n > 0)
		g_tlen += (size_t)n;
}

static void tr_hex(const void *p, size_t n)
{
	const unsigned char *b = p;
	for (size_t i = 0; i < n; i++)
		tr("%02x", b[i]);
}

static struct mem_map *mm_find(void *sym)
{
	if (sym == g_ct.sym)
		return &g_ct;
	if (sym == g_ccq.sym)
		return &g_ccq;
	return NULL;
}

static int mm_idx(struct mem_map *m, const void *key)
{
	for (int i = 0; i < m->n; i++)
		if (m->used[i] && memcmp(m->keys[i], key, m->ks) == 0)
			return i;
	return -1;
}

static int mm_put(struct mem_map *m, const void *key, const void *val)
{
	int i = mm_idx(m, key);
	if (i < 0) {
		/* never reuse a slot during one request: lookup pointers stay valid */
		if (m->n >= MM_CAP)
			return -1;
		i = m->n++;
		memcpy(m->keys[i], key, m->ks);
		m->used[i] = 1;
	}
	memcpy(m->vals[i], val, m->vs);
	return 0;
}

static void mm_reset(struct mem_map *m)
{
	m->n = 0;
	memset(m->used, 0, sizeof m->used);
}

/* ---- libbpf helper stubs -------------------------------------------------------------- */

void *bpf_map_lookup_elem(void *map, const void *key)
{
	struct mem_map *m = mm_find(map);
	if (!m) {
		tr("L:other::miss;");
		return NULL;
	}
	int i = mm_idx(m, key);
	tr("L:%s:", m->name);
	tr_hex(key, m->ks);
	tr(":%s;", i < 0 ? "miss" : "hit");
	return i < 0 ? NULL : m->vals[i];
}

long bpf_map_update_elem(void *map, const void *key, const void *value, __u64 flags)
{
	struct mem_map *m = mm_find(map);
	if (!m) {
		tr("U:other::;");
		return -1;
	}
	tr("U:%s:", m->name);
	tr_hex(key, m->ks);
	tr(":");
	tr_hex(value, m->vs);
	tr(";");
	return mm_put(m, key, value);
}

long bpf_map_delete_elem(void *map, const void *key)
{
	struct mem_map *m = mm_find(map);
	if (!m) {
		tr("D:other::miss;");
		return -2;
	}
	int i = mm_idx(m, key);
	tr("D:%s:", m->name);
	tr_hex(key, m->ks);
	tr(":%s;", i < 0 ? "miss" : "ok");
	if (i < 0)
		return -2; /* -ENOENT */
	m->used[i] = 0;
	return 0;
}

long bpf_for_each_map_elem(void *map, void *callback_fn, void *callback_ctx, __u64 flags)
{
	long (*cb)(void *, void *, void *, void *) = callback_fn;
	struct mem_map *m = mm_find(map);
	long n = 0;
	if (!m)
		return -1;
	int last = m->n; /* entries added during the walk are not visited */
	for (int i = 0; i < last; i++) {
		if (!m->used[i])
			continue;
		n++;
		if (cb(map, m->keys[i], m->vals[i], callback_ctx))
			break;
	}
	return n;
}

__u64 bpf_ktime_get_ns(void) { return g_now; }
__u32 bpf_get_prandom_u32(void) { return 4; }
__u32 bpf_get_smp_processor_id(void) { return 0; }
long bpf_trace_printk(const char *fmt, __u32 fmt_size, ...) { return 0; }
long bpf_trace_vprintk(const char *fmt, __u32 fmt_size, const void *data, __u32 data_len) { return 0; }
long bpf_spin_lock(void *lock) { return 0; }
long bpf_spin_unlock(void *lock) { return 0; }

long bpf_skb_load_bytes(const void *skb, __u32 offset, void *to, __u32 len)
{
	if (offset + len > sizeof g_skb)
		return -1;
	memcpy(to, g_skb + offset, len);
	return 0;
}

long bpf_skb_store_bytes(void *skb, __u32 offset, const void *from, __u32 len, __u64 flags)
{
	if (offset + len > sizeof g_skb)
		return -1;
	memcpy(g_skb + offset, from, len);
	return 0;
}

/* ---- protocol ---------------------------------------------------------------------------- */

static int unhex(const char *s, unsigned char *out, size_t want)
{
	if (strlen(s) != 2 * want)
		return -1;
	for (size_t i = 0; i < want; i++) {
		unsigned int v;
		if (sscanf(s + 2 * i, "%2x", &v) != 1)
			return -1;
		out[i] = (unsigned char)v;
	}
	return 0;
}

static void snapshot(void)
{
	memcpy(g_ct.snap, g_ct.vals, sizeof g_ct.vals);
}

static void emit_modified(void)
{
	for (int i = 0; i < g_ct.n; i++) {
		if (g_ct.used[i] && memcmp(g_ct.snap[i], g_ct.vals[i], g_ct.vs) != 0) {
			tr("M:ct:");
			tr_hex(g_ct.keys[i], g_ct.ks);
			tr(":");
			tr_hex(g_ct.vals[i], g_ct.vs);
			tr(";");
		}
	}
}

int main(void)
{
	char *line = NULL;
	size_t cap = 0;

	g_ct.sym = &CT_MAP_V;
	g_ct.name = "ct";
	g_ct.ks = sizeof(*CT_MAP_V.key);
	g_ct.vs = sizeof(*CT_MAP_V.value);
	g_ccq.sym = &CCQ_MAP_V;
	g_ccq.name = "ccq";
	g_ccq.ks = sizeof(*CCQ_MAP_V.key);
	g_ccq.vs = sizeof(*CCQ_MAP_V.value);
	if (g_ct.ks > MM_MAXK || g_ct.vs > MM_MAXV || g_ccq.ks > MM_MAXK || g_ccq.vs > MM_MAXV) {
		fprintf(stderr, "map key/value too large for the driver\n");
		return 2;
	}
	setvbuf(stdout, NULL, _IOFBF, 1 << 16);

	while (getline(&line, &cap, stdin) > 0) {
		size_t l = strlen(line);
		while (l && (line[l - 1] == '\n' || line[l - 1] == '\r'))
			line[--l] = 0;
		g_tlen = 0;
		g_trace[0] = 0;
		if (strcmp(line, "sizes") == 0) {
			printf("ok ctk=%zu ctv=%zu ccqk=%zu ccqv=%zu\n", g_ct.ks, g_ct.vs, g_ccq.ks, g_ccq.vs);
		} else if (strcmp(line, "reset") == 0) {
			mm_reset(&g_ct);
			mm_reset(&g_ccq);
			printf("ok\n");
		} else if (strncmp(line, "now ", 4) == 0) {
			g_now = strtoull(line + 4, NULL, 10);
			printf("ok\n");
		} else if (strncmp(line, "put ", 4) == 0) {
			char *name = line + 4;
			char *k = strchr(name, ' ');
			char *v = k ? strchr(k + 1, ' ') : NULL;
			unsigned char kb[MM_MAXK], vb[MM_MAXV];
			if (!k || !v) {
				printf("ERR put: syntax\n");
			} else {
				*k++ = 0;
				*v++ = 0;
				struct mem_map *m = strcmp(name, "ct") == 0 ? &g_ct : strcmp(name, "ccq") == 0 ? &g_ccq : NULL;
				if (!m || unhex(k, kb, m->ks) || unhex(v, vb, m->vs))
					printf("ERR put: bad map or key/value size (map %s wants key %zu value %zu bytes)\n",
					       name, m ? m->ks : 0, m ? m->vs : 0);
				else if (mm_put(m, kb, vb))
					printf("ERR put: map full\n");
				else
					printf("ok\n");
			}
		} else if (strncmp(line, "del ", 4) == 0) {
			char *name = line + 4;
			char *k = strchr(name, ' ');
			unsigned char kb[MM_MAXK];
			if (!k) {
				printf("ERR del: syntax\n");
			} else {
				*k++ = 0;
				struct mem_map *m = strcmp(name, "ct") == 0 ? &g_ct : strcmp(name, "ccq") == 0 ? &g_ccq : NULL;
				int i;
				if (!m || unhex(k, kb, m->ks)) {
					printf("ERR del: bad map or key size\n");
				} else {
					if ((i = mm_idx(m, kb)) >= 0)
						m->used[i] = 0;
					printf("ok\n");
				}
			}
		} else if (strncmp(line, "step ", 5) == 0) {
			unsigned char kb[MM_MAXK];
			int i;
			if (unhex(line + 5, kb, g_ccq.ks) || (i = mm_idx(&g_ccq, kb)) < 0) {
				printf("ERR step: no such cleanup-queue entry\n");
			} else {
				struct ct_iter_ctx ictx = {.now = g_now};
				snapshot();
				long rc = process_ccq_entry(&CCQ_MAP_V, (struct calico_ct_key *)g_ccq.keys[i],
							    (struct cali_ccq_value *)g_ccq.vals[i], &ictx);
				emit_modified();
				printf("ok cleaned=%llu rc=%ld ops=%s\n", (unsigned long long)ictx.num_cleaned, rc, g_trace);
			}
		} else if (strncmp(line, "run ", 4) == 0) {
			struct ct_iter_ctx ictx = {.now = strtoull(line + 4, NULL, 10)};
			memset(g_skb, 0, sizeof g_skb);
			memcpy(g_skb, &ictx, sizeof ictx);
			snapshot();
			int rc = conntrack_cleanup((struct __sk_buff *)g_skb);
			memcpy(&ictx, g_skb, sizeof ictx);
			emit_modified();
			printf("ok cleaned=%llu rc=%d ops=%s\n", (unsigned long long)ictx.num_cleaned, rc, g_trace);
		} else if (strncmp(line, "dump ", 5) == 0) {
			struct mem_map *m = strcmp(line + 5, "ct") == 0 ? &g_ct : strcmp(line + 5, "ccq") == 0 ? &g_ccq : NULL;
			if (!m) {
				printf("ERR dump: bad map\n");
			} else {
				printf("ok");
				for (int i = 0; i < m->n; i++) {
					if (!m->used[i])
						continue;
					printf(" ");
					for (size_t j = 0; j < m->ks; j++)
						printf("%02x", m->keys[i][j]);
					printf("=");
					for (size_t j = 0; j < m->vs; j++)
						printf("%02x", m->vals[i][j]);
				}
				printf("\n");
			}
		} else {
			printf("ERR unknown request\n");
		}
		fflush(stdout);
	}
	return 0;
}
