/* /verif cnative stub of libbpf's <bpf_helpers.h>.
 *
 * Purpose: let the CURRENT felix/bpf-gpl headers and conntrack_cleanup.c be compiled as an
 * ordinary host (x86-64) program, so that (C13) the compiler can be asked for
 * offsetof/sizeof and for typed reads/writes of the real struct definitions and (C14)
 * the real process_ccq_entry can be executed against in-memory maps.
 *
 * Nothing calico-specific is defined here: only what libbpf would have provided.
 * Helper functions are ordinary extern functions implemented by the driver
 * (cnative_maps.h) instead of libbpf's "static long (*fn)(...) = (void *)N" stubs.
 */
#ifndef __VERIF_STUB_BPF_HELPERS_H__
#define __VERIF_STUB_BPF_HELPERS_H__

#include <linux/types.h>
#include <linux/bpf.h>
#include <stddef.h>

/* bpf.h/skb.h contain BPF inline assembly ("asm volatile (...)").  "volatile" is defined
 * away here; the remaining "asm (...)" statements are removed from the preprocessed text
 * by the Go side (cnative.stripAsm) before the host compile.  None of the functions that
 * contain them is ever executed natively. */
#define volatile

/* Same definitions as libbpf: the map declarations keep their full type information, so
 * key/value sizes, map type and max_entries can be read back with sizeof. */
#define __uint(name, val) int (*name)[val]
#define __type(name, val) __typeof__(val) *name
#define __array(name, val) __typeof__(val) *name[]
#define SEC(name) __attribute__((section(name), used))

#ifndef __always_inline
#define __always_inline inline __attribute__((always_inline))
#endif
#ifndef __noinline
#define __noinline __attribute__((noinline))
#endif
#ifndef __weak
#define __weak __attribute__((weak))
#endif

#ifndef offsetof
#define offsetof(TYPE, MEMBER) __builtin_offsetof(TYPE, MEMBER)
#endif

struct __sk_buff;
struct xdp_md;
struct bpf_fib_lookup;
struct bpf_spin_lock;
struct bpf_tunnel_key;
struct bpf_sock_addr;

/* ---- helpers: implemented natively by the driver ---- */
void *bpf_map_lookup_elem(void *map, const void *key);
long bpf_map_update_elem(void *map, const void *key, const void *value, __u64 flags);
long bpf_map_delete_elem(void *map, const void *key);
long bpf_for_each_map_elem(void *map, void *callback_fn, void *callback_ctx, __u64 flags);
__u64 bpf_ktime_get_ns(void);
__u32 bpf_get_prandom_u32(void);
__u32 bpf_get_smp_processor_id(void);
long bpf_trace_printk(const char *fmt, __u32 fmt_size, ...);
long bpf_trace_vprintk(const char *fmt, __u32 fmt_size, const void *data, __u32 data_len);
long bpf_skb_load_bytes(const void *skb, __u32 offset, void *to, __u32 len);
long bpf_skb_store_bytes(void *skb, __u32 offset, const void *from, __u32 len, __u64 flags);
long bpf_skb_pull_data(void *skb, __u32 len);
long bpf_l3_csum_replace(void *skb, __u32 offset, __u64 from, __u64 to, __u64 size);
long bpf_l4_csum_replace(void *skb, __u32 offset, __u64 from, __u64 to, __u64 flags);
__s64 bpf_csum_diff(__be32 *from, __u32 from_size, __be32 *to, __u32 to_size, __wsum seed);
long bpf_spin_lock(void *lock);
long bpf_spin_unlock(void *lock);
long bpf_fib_lookup(void *ctx, void *params, int plen, __u32 flags);
long bpf_redirect(__u32 ifindex, __u64 flags);
long bpf_redirect_peer(__u32 ifindex, __u64 flags);
long bpf_redirect_neigh(__u32 ifindex, void *params, int plen, __u64 flags);
long bpf_clone_redirect(void *skb, __u32 ifindex, __u64 flags);
long bpf_tail_call(void *ctx, void *prog_array_map, __u32 index);
long bpf_skb_change_head(void *skb, __u32 len, __u64 flags);
long bpf_skb_change_tail(void *skb, __u32 len, __u64 flags);
long bpf_skb_adjust_room(void *skb, __s32 len_diff, __u32 mode, __u64 flags);
long bpf_skb_set_tunnel_key(void *skb, void *key, __u32 size, __u64 flags);
long bpf_skb_get_tunnel_key(void *skb, void *key, __u32 size, __u64 flags);
long bpf_skb_change_type(void *skb, __u32 type);
long bpf_skb_ecn_set_ce(void *skb);
long bpf_perf_event_output(void *ctx, void *map, __u64 flags, void *data, __u64 size);
long bpf_ringbuf_output(void *ringbuf, void *data, __u64 size, __u64 flags);
long bpf_xdp_adjust_head(void *xdp_md, int delta);
long bpf_xdp_load_bytes(void *xdp_md, __u32 offset, void *buf, __u32 len);
long bpf_loop(__u32 nr_loops, void *callback_fn, void *callback_ctx, __u64 flags);
__u64 bpf_get_socket_cookie(void *ctx);
__u64 bpf_get_netns_cookie(void *ctx);
long bpf_probe_read_kernel(void *dst, __u32 size, const void *unsafe_ptr);
long bpf_probe_read_user(void *dst, __u32 size, const void *unsafe_ptr);
long bpf_set_hash_invalid(void *skb);
long bpf_get_hash_recalc(void *skb);

#endif
