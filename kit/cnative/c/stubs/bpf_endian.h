/* /verif cnative stub of libbpf's <bpf_endian.h> for a little-endian host. */
#ifndef __VERIF_STUB_BPF_ENDIAN_H__
#define __VERIF_STUB_BPF_ENDIAN_H__

#if __BYTE_ORDER__ != __ORDER_LITTLE_ENDIAN__
#error "cnative stubs assume a little-endian host (same as the amd64/arm64 BPF dataplane)"
#endif

#define bpf_htons(x) ((__be16)__builtin_bswap16((__u16)(x)))
#define bpf_ntohs(x) ((__u16)__builtin_bswap16((__u16)(x)))
#define bpf_htonl(x) ((__be32)__builtin_bswap32((__u32)(x)))
#define bpf_ntohl(x) ((__u32)__builtin_bswap32((__u32)(x)))
#define bpf_cpu_to_be64(x) ((__be64)__builtin_bswap64((__u64)(x)))
#define bpf_be64_to_cpu(x) ((__u64)__builtin_bswap64((__u64)(x)))
#define bpf_cpu_to_be32(x) bpf_htonl(x)
#define bpf_be32_to_cpu(x) bpf_ntohl(x)
#define bpf_cpu_to_be16(x) bpf_htons(x)
#define bpf_be16_to_cpu(x) bpf_ntohs(x)

#endif
