/* /verif cnative stub of libbpf's <bpf_core_read.h>: no CO-RE natively. */
#ifndef __VERIF_STUB_BPF_CORE_READ_H__
#define __VERIF_STUB_BPF_CORE_READ_H__

#define bpf_core_enum_value_exists(enum_type, enum_value) 0
#define bpf_core_field_exists(field...) 0
#define bpf_core_type_exists(type) 0
#define BPF_CORE_READ(src, a, ...) 0

#endif
