/* Runtime for the generated C13 layout driver (see kit/cnative/layout.go).
 * Included AFTER the felix/bpf-gpl headers.  Line protocol on stdin/stdout:
 *
 *   layout                      -> one JSON line: structs{id:{size,fields{name:{off,size}|{bitoff,bits}}}}, maps{...}
 *   dec <id> <hex>              -> JSON object name -> "decimal" | "hex bytes"; typed reads through the real struct
 *   enc <id> [base:<hex>] n=v.. -> hex bytes of a zeroed (or base) struct after typed assignments
 *
 * Errors: a single line "ERR <reason>".
 */
#ifndef __VERIF_LAYOUT_RT_H__
#define __VERIF_LAYOUT_RT_H__

#include <stdio.h>
#include <stdlib.h>
#include <string.h>

static int rt_first;

static void rt_hex(const void *p, size_t n)
{
	const unsigned char *b = p;
	for (size_t i = 0; i < n; i++)
		printf("%02x", b[i]);
}

static int rt_unhex(const char *s, unsigned char *out, size_t max, size_t *n)
{
	size_t l = strlen(s);
	if (l % 2 || l / 2 > max)
		return -1;
	for (size_t i = 0; i < l / 2; i++) {
		unsigned int v;
		if (sscanf(s + 2 * i, "%2x", &v) != 1)
			return -1;
		out[i] = (unsigned char)v;
	}
	*n = l / 2;
	return 0;
}

static void rt_sep(void)
{
	if (!rt_first)
		printf(",");
	rt_first = 0;
}

static void rt_emit_field(const char *name, size_t off, size_t size)
{
	rt_sep();
	printf("\"%s\":{\"off\":%zu,\"size\":%zu}", name, off, size);
}

/* position of a bitfield: absolute index of its lowest bit (byte*8 + bit in byte) and width */
static void rt_emit_bits(const char *name, const void *ones, size_t n)
{
	const unsigned char *b = ones;
	long first = -1, count = 0, last = -1;
	for (size_t i = 0; i < n * 8; i++) {
		if (b[i / 8] & (1u << (i % 8))) {
			if (first < 0)
				first = (long)i;
			last = (long)i;
			count++;
		}
	}
	rt_sep();
	printf("\"%s\":{\"bitoff\":%ld,\"bits\":%ld,\"contig\":%d}", name, first, count,
	       (first >= 0 && last - first + 1 == count) ? 1 : 0);
}

#define L_STRUCT_BEGIN(id, T) do { rt_sep(); printf("\"%s\":{\"size\":%zu,\"fields\":{", id, sizeof(T)); rt_first = 1; } while (0)
#define L_STRUCT_END() do { printf("}}"); rt_first = 0; } while (0)
#define L_FIELD(T, path, name) rt_emit_field(name, __builtin_offsetof(T, path), sizeof(((T *)0)->path))
#define L_BIT(T, path, name) do { T z_; memset(&z_, 0, sizeof z_); z_.path = ~0; rt_emit_bits(name, &z_, sizeof z_); } while (0)
#define L_MAP(id, sym) do { rt_sep(); printf("\"%s\":{\"sym\":\"%s\",\"key\":%zu,\"value\":%zu,\"type\":%zu,\"max\":%zu}", id, #sym, \
	sizeof(*(sym).key), sizeof(*(sym).value), sizeof(*(sym).type) / sizeof(int), sizeof(*(sym).max_entries) / sizeof(int)); } while (0)

#define D_U(path, name) do { rt_sep(); printf("\"%s\":\"%llu\"", name, (unsigned long long)(v.path)); } while (0)
#define D_I(path, name) do { rt_sep(); printf("\"%s\":\"%lld\"", name, (long long)(v.path)); } while (0)
#define D_B(path, name) do { rt_sep(); printf("\"%s\":\"", name); rt_hex(&v.path, sizeof(v.path)); printf("\""); } while (0)
#define D_X(expr, name) do { rt_sep(); printf("\"%s\":\"%llu\"", name, (unsigned long long)(expr)); } while (0)

#define E_MATCH(name) (strcmp(k_, name) == 0)
#define E_U(path, name) if (E_MATCH(name)) { v.path = strtoull(val_, NULL, 0); continue; }
#define E_I(path, name) if (E_MATCH(name)) { v.path = strtoll(val_, NULL, 0); continue; }
#define E_B(path, name) if (E_MATCH(name)) { size_t n_; unsigned char tmp_[4096]; \
	if (rt_unhex(val_, tmp_, sizeof tmp_, &n_) || n_ != sizeof(v.path)) { printf("ERR bad bytes for %s (want %zu bytes)\n", name, sizeof(v.path)); return 1; } \
	memcpy(&v.path, tmp_, n_); continue; }

static char *rt_line;
static size_t rt_cap;

/* generated */
static void gen_layout(void);
static int gen_dec(const char *id, const unsigned char *buf, size_t n);
static int gen_enc(const char *id, char *args);

int main(void)
{
	setvbuf(stdout, NULL, _IOFBF, 1 << 16);
	while (getline(&rt_line, &rt_cap, stdin) > 0) {
		size_t l = strlen(rt_line);
		while (l && (rt_line[l - 1] == '\n' || rt_line[l - 1] == '\r'))
			rt_line[--l] = 0;
		if (strcmp(rt_line, "layout") == 0) {
			gen_layout();
			printf("\n");
		} else if (strncmp(rt_line, "dec ", 4) == 0) {
			char *id = rt_line + 4;
			char *hex = strchr(id, ' ');
			static unsigned char buf[8192];
			size_t n;
			if (!hex) {
				printf("ERR dec: missing bytes\n");
			} else {
				*hex++ = 0;
				if (rt_unhex(hex, buf, sizeof buf, &n))
					printf("ERR dec: bad hex\n");
				else if (gen_dec(id, buf, n) == 0)
					printf("\n");
			}
		} else if (strncmp(rt_line, "enc ", 4) == 0) {
			char *id = rt_line + 4;
			char *args = strchr(id, ' ');
			if (args)
				*args++ = 0;
			else
				args = id + strlen(id);
			if (gen_enc(id, args) == 0)
				printf("\n");
		} else {
			printf("ERR unknown request\n");
		}
		fflush(stdout);
	}
	return 0;
}

#endif
