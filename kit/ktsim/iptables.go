package ktsim

// iptables-save / iptables-restore --noflush simulator behind felix/iptables' command shim.
//
// Semantics restated from the real tools (legacy backend):
//   * iptables-restore processes "*table … COMMIT" transactions; a transaction is applied to
//     the kernel atomically at COMMIT, any error before that leaves the table untouched
//     (earlier, already committed transactions of the same input stay);
//   * ":chain policy counters" creates a user chain or, with --noflush, flushes an existing
//     user chain; for a built-in chain it only sets the policy (unless policy is "-");
//   * -A/-I/-R/-D (by number or by rule text)/-F/-N/-X with the kernel's checks: the chain
//     and any jump/goto target chain must exist, rule numbers must be in range, a delete by
//     text must match an existing rule, a chain can only be deleted when empty and unreferenced,
//     jump loops are refused at commit;
//   * iptables-save prints rules in the tool's canonical spelling (short option names,
//     address/interface/protocol matches first, comments quoted only when needed), built-in
//     chains first, then user chains by name.
// Rules are otherwise opaque text.

import (
	"bytes"
	"fmt"
	"io"
	"sort"
	"strconv"
	"strings"
	"time"

	"github.com/projectcalico/calico/felix/iptables/cmdshim"
)

var iptBuiltinChains = map[string][]string{
	"filter": {"INPUT", "FORWARD", "OUTPUT"},
	"nat":    {"PREROUTING", "INPUT", "OUTPUT", "POSTROUTING"},
	"mangle": {"PREROUTING", "INPUT", "FORWARD", "OUTPUT", "POSTROUTING"},
	"raw":    {"PREROUTING", "OUTPUT"},
}

// Extension targets that are not chains.
var iptExtensionTargets = map[string]bool{
	"ACCEPT": true, "DROP": true, "RETURN": true, "QUEUE": true, "REJECT": true, "MARK": true, "LOG": true,
	"NFLOG": true, "MASQUERADE": true, "SNAT": true, "DNAT": true, "NOTRACK": true, "CT": true,
	"TPROXY": true, "CONNMARK": true, "SET": true, "DSCP": true, "CHECKSUM": true, "TCPMSS": true,
	"NFQUEUE": true, "REDIRECT": true, "TRACE": true, "CLASSIFY": true, "TOS": true, "TTL": true,
}

type IptChain struct {
	Name    string
	Builtin bool
	Policy  string   // built-in chains only
	Rules   []string // canonical rule text without "-A chain"
}

type IptTable struct {
	Name   string
	Chains map[string]*IptChain
}

func (t *IptTable) clone() *IptTable {
	c := &IptTable{Name: t.Name, Chains: make(map[string]*IptChain, len(t.Chains))}
	for n, ch := range t.Chains {
		c.Chains[n] = &IptChain{Name: ch.Name, Builtin: ch.Builtin, Policy: ch.Policy, Rules: append([]string(nil), ch.Rules...)}
	}
	return c
}

// ChainNames returns built-in chains (in kernel order) followed by user chains sorted by name.
func (t *IptTable) ChainNames() []string {
	var out []string
	for _, n := range iptBuiltinChains[t.Name] {
		if _, ok := t.Chains[n]; ok {
			out = append(out, n)
		}
	}
	var user []string
	for n, ch := range t.Chains {
		if !ch.Builtin {
			user = append(user, n)
		}
	}
	sort.Strings(user)
	return append(out, user...)
}

// Snapshot returns chain name -> copy of the rules.
func (t *IptTable) Snapshot() map[string][]string {
	out := make(map[string][]string, len(t.Chains))
	for n, ch := range t.Chains {
		out[n] = append([]string{}, ch.Rules...)
	}
	return out
}

// IptEvent is one line of a restore session (or an out-of-band edit) that changed, or tried to
// change, the table.
type IptEvent struct {
	Seq       int
	CmdSeq    int
	Cmd       string // "restore" | "external" | "save"
	Table     string
	LineNo    int
	Line      string
	Chain     string // chain the line operates on
	Kind      string // "flush" "create" "policy" "append" "insert" "replace" "delete" "delete-chain" "commit" "error" "save"
	RuleNum   int    // 1-based rule number affected (0 = whole chain)
	Committed bool   // the transaction the line belongs to was committed
	Err       string
	Cause     string // "injected" | "semantic"
}

type IptFault struct {
	// Restore kinds: "run" (the process fails before reading input), "commit" (fails at the
	// COMMIT line of transaction number At, 1-based; 0 = first), "line" (fails at input line At).
	// Save kinds: "pipe", "start", "read" (read error after At lines), "rc" (full output,
	// non-zero exit), "trunc" (At lines of output then non-zero exit), "nft-incompat" (prints the
	// iptables-nft "table is incompatible" banner with exit 0).
	Kind string
	At   int
}

// IptKernel is the simulated netfilter state for one address family plus the tools.
type IptKernel struct {
	Tables map[string]*IptTable

	RestoreFaults []IptFault
	SaveFaults    []IptFault
	// BeforeRestore hooks run (one per restore process, FIFO) after the tool was started and
	// before it reads its input: a window for concurrent modification by another program.
	BeforeRestore []func()

	Log      []IptEvent
	Observer func(k *IptKernel, ev *IptEvent) // called for every event once its fate (committed or not) is known
	Gaps     []string

	now        time.Time
	SleptTotal time.Duration
	// CmdCost is added to the clock by every save/restore run (lets time-based logic see time pass).
	CmdCost time.Duration

	evSeq  int
	cmdSeq int

	NumSaves    int
	NumRestores int
}

func NewIptKernel() *IptKernel {
	k := &IptKernel{Tables: map[string]*IptTable{}, now: time.Unix(1_700_000_000, 0)}
	for name, chains := range iptBuiltinChains {
		t := &IptTable{Name: name, Chains: map[string]*IptChain{}}
		for _, c := range chains {
			t.Chains[c] = &IptChain{Name: c, Builtin: true, Policy: "ACCEPT"}
		}
		k.Tables[name] = t
	}
	return k
}

func (k *IptKernel) Now() time.Time { return k.now }
func (k *IptKernel) Sleep(d time.Duration) {
	k.SleptTotal += d
	k.now = k.now.Add(d)
}
func (k *IptKernel) Advance(d time.Duration) { k.now = k.now.Add(d) }

// LookPath is a shim for exec.LookPath that "finds" every iptables binary name.
func (k *IptKernel) LookPath(file string) (string, error) {
	if strings.Contains(file, "tables") {
		return "/usr/sbin/" + file, nil
	}
	return "", fmt.Errorf("%s: not found", file)
}

func (k *IptKernel) emit(ev IptEvent) {
	k.evSeq++
	ev.Seq = k.evSeq
	k.Log = append(k.Log, ev)
	if k.Observer != nil {
		k.Observer(k, &k.Log[len(k.Log)-1])
	}
}

// ---------------------------------------------------------------------------------------
// Rule text canonicalisation.

// iptTokenize splits a rule on blanks honouring double quotes (as iptables-restore does).
func iptTokenize(s string) ([]string, error) {
	var toks []string
	var cur strings.Builder
	inTok, inQ := false, false
	for i := 0; i < len(s); i++ {
		c := s[i]
		switch {
		case inQ:
			if c == '\\' && i+1 < len(s) && (s[i+1] == '"' || s[i+1] == '\\') {
				cur.WriteByte(s[i+1])
				i++
			} else if c == '"' {
				inQ = false
			} else {
				cur.WriteByte(c)
			}
		case c == '"':
			inQ, inTok = true, true
		case c == ' ' || c == '\t':
			if inTok {
				toks = append(toks, cur.String())
				cur.Reset()
				inTok = false
			}
		default:
			inTok = true
			cur.WriteByte(c)
		}
	}
	if inQ {
		return nil, fmt.Errorf("unbalanced quotes in %q", s)
	}
	if inTok {
		toks = append(toks, cur.String())
	}
	return toks, nil
}

func iptQuote(tok string) string {
	if tok == "" || strings.ContainsAny(tok, " \t\"'\\") {
		return `"` + strings.NewReplacer(`\`, `\\`, `"`, `\"`).Replace(tok) + `"`
	}
	return tok
}

var iptLongToShort = map[string]string{
	"--jump": "-j", "--goto": "-g", "--match": "-m", "--protocol": "-p", "--proto": "-p",
	"--source": "-s", "--src": "-s", "--destination": "-d", "--dst": "-d",
	"--in-interface": "-i", "--out-interface": "-o",
}

var iptHeadOrder = map[string]int{"-s": 0, "-d": 1, "-i": 2, "-o": 3, "-p": 4}

// NormIptRule converts a rule specification (the part after "-A chain") to the canonical
// spelling iptables-save prints; it also returns the jump/goto target ("" if none).
func NormIptRule(spec string) (canon string, target string, err error) {
	toks, err := iptTokenize(spec)
	if err != nil {
		return "", "", err
	}
	type headOpt struct {
		ord  int
		toks []string
	}
	var heads []headOpt
	var rest []string
	for i := 0; i < len(toks); i++ {
		t := toks[i]
		if s, ok := iptLongToShort[t]; ok {
			t = s
		}
		neg := false
		j := i
		if t == "!" && i+1 < len(toks) {
			nt := toks[i+1]
			if s, ok := iptLongToShort[nt]; ok {
				nt = s
			}
			if _, isHead := iptHeadOrder[nt]; isHead {
				neg = true
				t = nt
				j = i + 1
			}
		}
		if ord, isHead := iptHeadOrder[t]; isHead && target == "" {
			if j+1 >= len(toks) {
				return "", "", fmt.Errorf("option %s needs an argument in %q", t, spec)
			}
			h := headOpt{ord: ord}
			if neg {
				h.toks = append(h.toks, "!")
			}
			h.toks = append(h.toks, t, iptQuote(toks[j+1]))
			heads = append(heads, h)
			i = j + 1
			continue
		}
		if (t == "-j" || t == "-g") && target == "" {
			if i+1 >= len(toks) {
				return "", "", fmt.Errorf("option %s needs an argument in %q", t, spec)
			}
			target = toks[i+1]
			rest = append(rest, t, iptQuote(toks[i+1]))
			i++
			continue
		}
		rest = append(rest, iptQuote(t))
	}
	sort.SliceStable(heads, func(a, b int) bool { return heads[a].ord < heads[b].ord })
	var out []string
	for _, h := range heads {
		out = append(out, h.toks...)
	}
	out = append(out, rest...)
	return strings.Join(out, " "), target, nil
}

// IptRuleTarget returns the jump/goto target of a canonical rule.
func IptRuleTarget(canon string) string {
	_, tgt, _ := NormIptRule(canon)
	return tgt
}

// ---------------------------------------------------------------------------------------
// Restore engine.

type iptTxn struct {
	k      *IptKernel
	tbl    *IptTable // working copy
	events []IptEvent
}

func (x *iptTxn) refCount(chain string) int {
	n := 0
	for _, ch := range x.tbl.Chains {
		for _, r := range ch.Rules {
			if IptRuleTarget(r) == chain {
				n++
			}
		}
	}
	return n
}

func (x *iptTxn) checkTarget(tgt string) error {
	if tgt == "" || iptExtensionTargets[tgt] {
		return nil
	}
	if _, ok := x.tbl.Chains[tgt]; ok {
		return nil
	}
	return fmt.Errorf("Couldn't load target `%s':No such file or directory", tgt)
}

// apply executes one restore line on the working copy.
func (x *iptTxn) apply(line string) (ev IptEvent, err error) {
	ev = IptEvent{Line: line, Table: x.tbl.Name}
	fail := func(format string, a ...any) (IptEvent, error) {
		return ev, fmt.Errorf(format, a...)
	}
	if strings.HasPrefix(line, ":") {
		f := strings.Fields(line[1:])
		if len(f) < 2 {
			return fail("invalid chain line %q", line)
		}
		name, policy := f[0], f[1]
		ev.Chain = name
		ch, ok := x.tbl.Chains[name]
		switch {
		case ok && ch.Builtin:
			ev.Kind = "policy"
			if policy != "-" {
				ch.Policy = policy
			}
		case ok:
			ev.Kind = "flush"
			ch.Rules = nil
		default:
			if len(name) > 28 {
				return fail("chain name `%s' too long (must be under 29 chars)", name)
			}
			if policy != "-" {
				return fail("policy given for user-defined chain %s", name)
			}
			ev.Kind = "create"
			x.tbl.Chains[name] = &IptChain{Name: name}
		}
		return ev, nil
	}
	// Split off the command and chain name without disturbing the quoting of the rest.
	rest := strings.TrimLeft(line, " ")
	cut := func() string {
		rest = strings.TrimLeft(rest, " ")
		i := strings.IndexByte(rest, ' ')
		if i < 0 {
			w := rest
			rest = ""
			return w
		}
		w := rest[:i]
		rest = rest[i+1:]
		return w
	}
	cmd := cut()
	chainName := cut()
	ev.Chain = chainName
	ch, ok := x.tbl.Chains[chainName]
	needChain := func() error {
		if !ok {
			return fmt.Errorf("No chain/target/match by that name (chain %s)", chainName)
		}
		return nil
	}
	peekNum := func() (int, bool) {
		r := strings.TrimLeft(rest, " ")
		i := strings.IndexByte(r, ' ')
		w := r
		if i >= 0 {
			w = r[:i]
		}
		n, err := strconv.Atoi(w)
		if err != nil {
			return 0, false
		}
		if i >= 0 {
			rest = r[i+1:]
		} else {
			rest = ""
		}
		return n, true
	}
	switch cmd {
	case "-A", "--append":
		if err := needChain(); err != nil {
			return ev, err
		}
		canon, tgt, err := NormIptRule(rest)
		if err != nil {
			return ev, err
		}
		if err := x.checkTarget(tgt); err != nil {
			return ev, err
		}
		ch.Rules = append(ch.Rules, canon)
		ev.Kind, ev.RuleNum = "append", len(ch.Rules)
	case "-I", "--insert":
		if err := needChain(); err != nil {
			return ev, err
		}
		n, has := peekNum()
		if !has {
			n = 1
		}
		if n < 1 || n > len(ch.Rules)+1 {
			return fail("Index of insertion too big")
		}
		canon, tgt, err := NormIptRule(rest)
		if err != nil {
			return ev, err
		}
		if err := x.checkTarget(tgt); err != nil {
			return ev, err
		}
		ch.Rules = append(ch.Rules, "")
		copy(ch.Rules[n:], ch.Rules[n-1:])
		ch.Rules[n-1] = canon
		ev.Kind, ev.RuleNum = "insert", n
	case "-R", "--replace":
		if err := needChain(); err != nil {
			return ev, err
		}
		n, has := peekNum()
		if !has {
			return fail("-R requires a rule number")
		}
		if n < 1 || n > len(ch.Rules) {
			return fail("Index of replacement too big")
		}
		canon, tgt, err := NormIptRule(rest)
		if err != nil {
			return ev, err
		}
		if err := x.checkTarget(tgt); err != nil {
			return ev, err
		}
		ch.Rules[n-1] = canon
		ev.Kind, ev.RuleNum = "replace", n
	case "-D", "--delete":
		if err := needChain(); err != nil {
			return ev, err
		}
		if n, has := peekNum(); has && strings.TrimSpace(rest) == "" {
			if n < 1 || n > len(ch.Rules) {
				return fail("Index of deletion too big")
			}
			ch.Rules = append(ch.Rules[:n-1], ch.Rules[n:]...)
			ev.Kind, ev.RuleNum = "delete", n
			break
		}
		canon, _, err := NormIptRule(rest)
		if err != nil {
			return ev, err
		}
		idx := -1
		for i, r := range ch.Rules {
			if r == canon {
				idx = i
				break
			}
		}
		if idx < 0 {
			return fail("Bad rule (does a matching rule exist in that chain?)")
		}
		ch.Rules = append(ch.Rules[:idx], ch.Rules[idx+1:]...)
		ev.Kind, ev.RuleNum = "delete", idx+1
	case "-F", "--flush":
		if err := needChain(); err != nil {
			return ev, err
		}
		ch.Rules = nil
		ev.Kind = "flush"
	case "-N", "--new-chain":
		if ok {
			return fail("Chain already exists")
		}
		x.tbl.Chains[chainName] = &IptChain{Name: chainName}
		ev.Kind = "create"
	case "-X", "--delete-chain":
		if err := needChain(); err != nil {
			return ev, err
		}
		if ch.Builtin {
			return fail("Can't delete built-in chain")
		}
		if len(ch.Rules) > 0 {
			return fail("Directory not empty (chain %s)", chainName)
		}
		if x.refCount(chainName) > 0 {
			return fail("Too many links (chain %s is referenced)", chainName)
		}
		delete(x.tbl.Chains, chainName)
		ev.Kind = "delete-chain"
	default:
		x.k.Gaps = append(x.k.Gaps, fmt.Sprintf("unknown iptables-restore command in %q", line))
		return fail("ktsim-gap: unknown command %q", cmd)
	}
	return ev, nil
}

// loopFree reports whether the jump graph of the working copy has no cycle.
func (x *iptTxn) loopFree() bool {
	const (
		white = iota
		grey
		black
	)
	col := map[string]int{}
	var visit func(n string) bool
	visit = func(n string) bool {
		col[n] = grey
		if ch, ok := x.tbl.Chains[n]; ok {
			for _, r := range ch.Rules {
				t := IptRuleTarget(r)
				if _, isChain := x.tbl.Chains[t]; !isChain {
					continue
				}
				switch col[t] {
				case grey:
					return false
				case white:
					if !visit(t) {
						return false
					}
				}
			}
		}
		col[n] = black
		return true
	}
	for _, n := range x.tbl.ChainNames() {
		if col[n] == white && !visit(n) {
			return false
		}
	}
	return true
}

// runRestore executes a complete iptables-restore --noflush input.
func (k *IptKernel) runRestore(cmdSeq int, cmdName string, input string, fault *IptFault) error {
	var txn *iptTxn
	txnNo := 0
	flush := func(committed bool, errEv *IptEvent) {
		if txn != nil {
			for _, e := range txn.events {
				e.Committed = committed
				k.emit(e)
			}
		}
		if errEv != nil {
			k.emit(*errEv)
		}
		txn = nil
	}
	if fault != nil && fault.Kind == "run" {
		flush(false, &IptEvent{CmdSeq: cmdSeq, Cmd: cmdName, Kind: "error", Line: "<run>", Err: ErrInjected.Error(), Cause: "injected"})
		return &ExitError{Tool: "iptables-restore", Status: 1, Msg: "injected"}
	}
	lines := strings.Split(input, "\n")
	for i, line := range lines {
		lineNo := i + 1
		if strings.TrimSpace(line) == "" || strings.HasPrefix(line, "#") {
			continue
		}
		failAt := func(msg, cause string) error {
			tn := ""
			if txn != nil {
				tn = txn.tbl.Name
			}
			flush(false, &IptEvent{CmdSeq: cmdSeq, Cmd: cmdName, Table: tn, LineNo: lineNo, Line: line, Kind: "error", Err: msg, Cause: cause})
			return &ExitError{Tool: "iptables-restore", Status: 1, Msg: fmt.Sprintf("line %d failed: %s", lineNo, msg)}
		}
		if fault != nil && fault.Kind == "line" && fault.At == lineNo {
			return failAt(ErrInjected.Error(), "injected")
		}
		if strings.HasPrefix(line, "*") {
			if txn != nil {
				return failAt("table line inside a transaction", "semantic")
			}
			name := strings.TrimSpace(line[1:])
			tbl, ok := k.Tables[name]
			if !ok {
				return failAt(fmt.Sprintf("can't initialize iptables table `%s': Table does not exist", name), "semantic")
			}
			txn = &iptTxn{k: k, tbl: tbl.clone()}
			txnNo++
			continue
		}
		if txn == nil {
			return failAt("line outside a *table … COMMIT block", "semantic")
		}
		if line == "COMMIT" {
			if fault != nil && fault.Kind == "commit" && (fault.At == txnNo || (fault.At == 0 && txnNo == 1)) {
				return failAt("iptables-restore: line "+strconv.Itoa(lineNo)+" failed (injected concurrent modification)", "injected")
			}
			if !txn.loopFree() {
				return failAt("Too many levels of symbolic links (loop in chains)", "semantic")
			}
			k.Tables[txn.tbl.Name] = txn.tbl
			name := txn.tbl.Name
			flush(true, &IptEvent{CmdSeq: cmdSeq, Cmd: cmdName, Table: name, LineNo: lineNo, Line: line, Kind: "commit", Committed: true})
			continue
		}
		ev, err := txn.apply(line)
		ev.CmdSeq, ev.Cmd, ev.LineNo = cmdSeq, cmdName, lineNo
		if err != nil {
			return failAt(err.Error(), "semantic")
		}
		txn.events = append(txn.events, ev)
	}
	if txn != nil {
		// EOF without COMMIT: nothing of the open transaction is applied.
		flush(false, &IptEvent{CmdSeq: cmdSeq, Cmd: cmdName, Table: txn.tbl.Name, Kind: "error", Line: "<EOF>", Err: "no COMMIT", Cause: "semantic"})
		return &ExitError{Tool: "iptables-restore", Status: 1, Msg: "no COMMIT"}
	}
	return nil
}

// External applies restore-grammar lines (without "*table"/"COMMIT") to one table atomically
// on behalf of another program; it is logged with Cmd "external".
func (k *IptKernel) External(table string, lines ...string) error {
	input := "*" + table + "\n" + strings.Join(lines, "\n") + "\nCOMMIT\n"
	return k.runRestore(0, "external", input, nil)
}

// MustExternal is External for start-state construction.
func (k *IptKernel) MustExternal(table string, lines ...string) {
	if err := k.External(table, lines...); err != nil {
		panic(fmt.Sprintf("ktsim: start-state restore for table %s failed: %v\n%s", table, err, strings.Join(lines, "\n")))
	}
}

// SaveOutput renders `iptables-save -t table`.
func (k *IptKernel) SaveOutput(table string) string {
	t, ok := k.Tables[table]
	if !ok {
		return ""
	}
	var b strings.Builder
	b.WriteString("# Generated by iptables-save v1.8.7 on Tue Nov 14 22:13:20 2023\n")
	fmt.Fprintf(&b, "*%s\n", table)
	names := t.ChainNames()
	for _, n := range names {
		ch := t.Chains[n]
		if ch.Builtin {
			fmt.Fprintf(&b, ":%s %s [0:0]\n", n, ch.Policy)
		} else {
			fmt.Fprintf(&b, ":%s - [0:0]\n", n)
		}
	}
	for _, n := range names {
		for _, r := range t.Chains[n].Rules {
			if r == "" {
				fmt.Fprintf(&b, "-A %s\n", n)
			} else {
				fmt.Fprintf(&b, "-A %s %s\n", n, r)
			}
		}
	}
	b.WriteString("COMMIT\n# Completed on Tue Nov 14 22:13:20 2023\n")
	return b.String()
}

// ---------------------------------------------------------------------------------------
// Command shim.

// NewCmd is the cmdshim.CmdFactory to pass as TableOptions.NewCmdOverride.
func (k *IptKernel) NewCmd(name string, arg ...string) cmdshim.CmdIface {
	k.cmdSeq++
	c := &iptCmd{k: k, seq: k.cmdSeq, name: name, args: arg}
	switch {
	case strings.HasSuffix(name, "-restore"):
		c.kind = "restore"
		if len(k.RestoreFaults) > 0 {
			f := k.RestoreFaults[0]
			k.RestoreFaults = k.RestoreFaults[1:]
			c.fault = &f
		}
		noflush := false
		for _, a := range arg {
			if a == "--noflush" || a == "-n" {
				noflush = true
			}
		}
		if !noflush {
			k.Gaps = append(k.Gaps, fmt.Sprintf("%s without --noflush is not modelled (%v)", name, arg))
		}
	case strings.HasSuffix(name, "-save"):
		c.kind = "save"
		if len(arg) == 2 && arg[0] == "-t" {
			c.table = arg[1]
		} else {
			k.Gaps = append(k.Gaps, fmt.Sprintf("%s with unexpected args %v", name, arg))
		}
		if len(k.SaveFaults) > 0 {
			f := k.SaveFaults[0]
			k.SaveFaults = k.SaveFaults[1:]
			c.fault = &f
		}
	case (name == "iptables" || name == "ip6tables") && len(arg) == 1 && arg[0] == "--version":
		c.kind = "version"
	default:
		k.Gaps = append(k.Gaps, fmt.Sprintf("unexpected command %s %v", name, arg))
		c.kind = "bad"
	}
	return c
}

type iptCmd struct {
	k      *IptKernel
	seq    int
	name   string
	args   []string
	kind   string
	table  string
	fault  *IptFault
	stdin  io.Reader
	stdout io.Writer
	stderr io.Writer
	out    *ipsetStdout
	waitErr error
	started bool
}

func (c *iptCmd) SetStdin(r io.Reader)  { c.stdin = r }
func (c *iptCmd) SetStdout(w io.Writer) { c.stdout = w }
func (c *iptCmd) SetStderr(w io.Writer) { c.stderr = w }
func (c *iptCmd) Kill() error           { return nil }
func (c *iptCmd) String() string        { return fmt.Sprintf("%s %v", c.name, c.args) }

func (c *iptCmd) gap(what string) error {
	c.k.Gaps = append(c.k.Gaps, fmt.Sprintf("%s: %s not supported by simulator", c.String(), what))
	return fmt.Errorf("ktsim-gap: %s", what)
}

func (c *iptCmd) Run() error {
	switch c.kind {
	case "restore":
		c.k.NumRestores++
		c.k.now = c.k.now.Add(c.k.CmdCost)
		var buf bytes.Buffer
		if c.stdin != nil {
			_, _ = io.Copy(&buf, c.stdin)
		}
		if len(c.k.BeforeRestore) > 0 {
			hook := c.k.BeforeRestore[0]
			c.k.BeforeRestore = c.k.BeforeRestore[1:]
			hook()
		}
		err := c.k.runRestore(c.seq, "restore", buf.String(), c.fault)
		if err != nil && c.stderr != nil {
			_, _ = c.stderr.Write([]byte(err.Error() + "\n"))
		}
		return err
	case "version":
		if c.stdout != nil {
			_, _ = c.stdout.Write([]byte("iptables v1.8.7 (legacy)\n"))
		}
		return nil
	case "save":
		out, err := c.Output()
		if c.stdout != nil {
			_, _ = c.stdout.Write(out)
		}
		return err
	}
	return c.gap("Run")
}

func (c *iptCmd) saveOutput() (string, error) {
	c.k.NumSaves++
	c.k.now = c.k.now.Add(c.k.CmdCost)
	out := c.k.SaveOutput(c.table)
	ev := IptEvent{CmdSeq: c.seq, Cmd: "save", Table: c.table, Kind: "save", Line: c.String()}
	var err error
	readErr := false
	if c.fault != nil {
		switch c.fault.Kind {
		case "rc":
			err = &ExitError{Tool: c.name, Status: 1, Msg: "injected"}
		case "trunc", "read":
			lines := strings.SplitAfter(out, "\n")
			n := c.fault.At
			if n < 0 {
				n = 0
			}
			if n > len(lines) {
				n = len(lines)
			}
			out = strings.Join(lines[:n], "")
			err = &ExitError{Tool: c.name, Status: 1, Msg: "injected"}
			readErr = c.fault.Kind == "read"
		case "nft-incompat":
			out = "# Table `" + c.table + "' is incompatible, use 'nft' tool.\n"
		}
		if c.fault.Kind != "pipe" && c.fault.Kind != "start" {
			ev.Err, ev.Cause = ErrInjected.Error(), "injected"
		}
	}
	if c.out != nil {
		c.out.readErr = readErr
	}
	c.k.emit(ev)
	return out, err
}

func (c *iptCmd) Output() ([]byte, error) {
	switch c.kind {
	case "save":
		if c.fault != nil && (c.fault.Kind == "pipe" || c.fault.Kind == "start") {
			c.k.emit(IptEvent{CmdSeq: c.seq, Cmd: "save", Table: c.table, Kind: "save", Line: c.String(), Err: ErrInjected.Error(), Cause: "injected"})
			return nil, ErrInjected
		}
		out, err := c.saveOutput()
		return []byte(out), err
	case "version":
		return []byte("iptables v1.8.7 (legacy)\n"), nil
	}
	return nil, c.gap("Output")
}

func (c *iptCmd) StdoutPipe() (io.ReadCloser, error) {
	if c.kind != "save" {
		return nil, c.gap("StdoutPipe")
	}
	if c.fault != nil && c.fault.Kind == "pipe" {
		c.k.emit(IptEvent{CmdSeq: c.seq, Cmd: "save", Table: c.table, Kind: "save", Line: c.String(), Err: ErrInjected.Error(), Cause: "injected"})
		return nil, ErrInjected
	}
	c.out = &ipsetStdout{r: bytes.NewReader(nil)}
	return c.out, nil
}

func (c *iptCmd) Start() error {
	if c.kind != "save" {
		return c.gap("Start")
	}
	if c.fault != nil && c.fault.Kind == "start" {
		c.k.emit(IptEvent{CmdSeq: c.seq, Cmd: "save", Table: c.table, Kind: "save", Line: c.String(), Err: ErrInjected.Error(), Cause: "injected"})
		return ErrInjected
	}
	if c.out == nil {
		return c.gap("Start without StdoutPipe")
	}
	out, err := c.saveOutput()
	c.out.r = bytes.NewReader([]byte(out))
	c.waitErr = err
	c.started = true
	return nil
}

func (c *iptCmd) Wait() error {
	if !c.started {
		return c.gap("Wait before Start")
	}
	return c.waitErr
}
