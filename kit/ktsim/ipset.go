// Package ktsim holds kernel-table simulators for the /verif harnesses: an `ipset` command
// simulator (this file) and an iptables-save / iptables-restore simulator (iptables.go).
//
// They are modelled on the repo's own test mocks (felix/ipsets/utils_for_test.go,
// felix/iptables/testutils) but are free of Gomega/Ginkgo, are fully synchronous (no
// goroutines: the "process" runs when the caller waits for it), accept arbitrary starting
// contents, keep the real tools' failure semantics (an `ipset restore` session that fails at
// line k keeps the effect of lines <k; iptables-restore is all-or-nothing) and expose the
// kernel state after every executed line through an observer callback and an event log.
package ktsim

import (
	"bufio"
	"bytes"
	"errors"
	"fmt"
	"hash/fnv"
	"io"
	"net/netip"
	"sort"
	"strconv"
	"strings"
	"time"

	"github.com/projectcalico/calico/felix/ipsets"
)

// ErrInjected is the error returned for faults injected by a harness.
var ErrInjected = errors.New("ktsim: injected failure")

// ExitError mimics a non-zero exit status from the simulated tool.
type ExitError struct {
	Tool   string
	Status int
	Msg    string
}

func (e *ExitError) Error() string {
	return fmt.Sprintf("%s: exit status %d (%s)", e.Tool, e.Status, e.Msg)
}

// ---------------------------------------------------------------------------------------
// State

// IPSet is one kernel IP set.
type IPSet struct {
	Name     string
	Type     string // "hash:ip", "hash:net", "hash:ip,port", "hash:net,net", "bitmap:port", or anything else (foreign/unknown)
	Family   string // "inet" | "inet6" | "" (bitmap:port)
	MaxElem  int
	RangeMin int
	RangeMax int
	Revision int
	// Unlistable makes `ipset list NAME` fail with a protocol error (set created by a newer
	// ipset than the userspace tool understands).  The flag travels with the set's contents
	// on swap, as the kernel revision does.
	Unlistable bool
	Members    map[string]struct{} // canonical text, as `ipset list` prints it
	seq        int                 // creation order, drives `list -name` order
}

// IPSetSnap is a comparable, printable copy of an IPSet.
type IPSetSnap struct {
	Name       string   `json:"name"`
	Type       string   `json:"type"`
	Family     string   `json:"family,omitempty"`
	MaxElem    int      `json:"maxelem,omitempty"`
	RangeMin   int      `json:"range_min,omitempty"`
	RangeMax   int      `json:"range_max,omitempty"`
	Unlistable bool     `json:"unlistable,omitempty"`
	Members    []string `json:"members"` // sorted
}

func (s IPSetSnap) String() string {
	hdr := ""
	if s.Type == "bitmap:port" {
		hdr = fmt.Sprintf("range %d-%d", s.RangeMin, s.RangeMax)
	} else {
		hdr = fmt.Sprintf("family %s maxelem %d", s.Family, s.MaxElem)
	}
	u := ""
	if s.Unlistable {
		u = " UNLISTABLE"
	}
	return fmt.Sprintf("%s{%s %s%s [%s]}", s.Name, s.Type, hdr, u, strings.Join(s.Members, " "))
}

// SameParams reports whether type and creation parameters agree.
func (s IPSetSnap) SameParams(o IPSetSnap) bool {
	return s.Type == o.Type && s.Family == o.Family && s.MaxElem == o.MaxElem &&
		s.RangeMin == o.RangeMin && s.RangeMax == o.RangeMax
}

// Equal compares everything but the name.
func (s IPSetSnap) Equal(o IPSetSnap) bool {
	if !s.SameParams(o) || s.Unlistable != o.Unlistable || len(s.Members) != len(o.Members) {
		return false
	}
	for i := range s.Members {
		if s.Members[i] != o.Members[i] {
			return false
		}
	}
	return true
}

func (s *IPSet) Snap() IPSetSnap {
	ms := make([]string, 0, len(s.Members))
	for m := range s.Members {
		ms = append(ms, m)
	}
	sort.Strings(ms)
	return IPSetSnap{Name: s.Name, Type: s.Type, Family: s.Family, MaxElem: s.MaxElem,
		RangeMin: s.RangeMin, RangeMax: s.RangeMax, Unlistable: s.Unlistable, Members: ms}
}

// IPSetEvent describes one executed unit: one line of an `ipset restore` session, one
// `ipset destroy`, one `ipset list`, or one out-of-band command from the harness.
type IPSetEvent struct {
	Seq    int    // global sequence number
	CmdSeq int    // sequence number of the command (process) this line belongs to
	Cmd    string // "restore" | "destroy" | "list" | "list-names" | "external"
	LineNo int    // 1-based line number within a restore session (0 otherwise)
	Line   string // the line / command text
	Err    string // "" if the line took effect; otherwise the tool's error text
	// Cause classifies a failure: "" (none), "injected", "semantic" (the kernel refused:
	// exists / not found / type mismatch...), "ruleref" (destroy refused: referenced by
	// the owner's own rules), "extref" (destroy refused: referenced by someone else).
	Cause string
	// Touched lists the set names whose existence, parameters or members the line changed.
	Touched []string
}

// IPSetKernel is the simulated kernel-side IP set table plus the `ipset` tool.
type IPSetKernel struct {
	sets    map[string]*IPSet
	nextSeq int

	// RuleRefs / ExtRefs: names that cannot be destroyed because a rule references them.
	// RuleRefs models references from the rules of the software under test, ExtRefs those
	// from other software; the only difference is the Cause reported on the event.
	RuleRefs map[string]bool
	ExtRefs  map[string]bool

	// Fault queues.  One entry is consumed by each new command of that kind.
	RestoreFaults []RestoreFault
	ListFaults    []ListFault
	DestroyFaults []bool // true = this destroy fails transiently (set untouched)

	// Observer, if set, is called after every event with the kernel in its post-event state.
	Observer func(k *IPSetKernel, ev *IPSetEvent)
	// Log of all events (cleared by the harness whenever it likes).
	Log []IPSetEvent
	// Gaps collects things the simulator could not interpret (harness should fail with
	// HARNESS-GAP if this is non-empty).
	Gaps []string

	// Clock.
	now        time.Time
	Tick       time.Duration // added to the clock on every Now() call
	SleptTotal time.Duration

	evSeq  int
	cmdSeq int
}

type RestoreFault struct {
	// Kind: "pipe" (StdinPipe fails), "start" (Start fails), "pre" (process exits non-zero
	// before reading anything), "line" (process fails when it reaches line At, 1-based, lines
	// before it keep their effect; if the input is shorter the session succeeds), "write"
	// (the At-th Write call on stdin and all later ones fail; complete lines written before
	// are executed, then the process exits non-zero), "exit" (all lines executed, but
	// non-zero exit status), "close" (closing stdin fails; all lines executed, exit 0).
	Kind string
	At   int
}

type ListFault struct {
	// Kind: "pipe" (StdoutPipe fails), "start" (Start fails), "rc" (full output, non-zero
	// exit), "trunc" (only At lines of output, then non-zero exit), "read" (read error after
	// At lines of output).
	Kind string
	At   int
}

func NewIPSetKernel() *IPSetKernel {
	return &IPSetKernel{
		sets:     map[string]*IPSet{},
		RuleRefs: map[string]bool{},
		ExtRefs:  map[string]bool{},
		now:      time.Unix(1_700_000_000, 0),
	}
}

// Now is a deterministic clock shim: returns the current simulated time and advances it.
func (k *IPSetKernel) Now() time.Time {
	t := k.now
	k.now = k.now.Add(k.Tick)
	return t
}

// Sleep is a sleep shim.
func (k *IPSetKernel) Sleep(d time.Duration) {
	k.SleptTotal += d
	k.now = k.now.Add(d)
}

// Get returns a snapshot of one set.
func (k *IPSetKernel) Get(name string) (IPSetSnap, bool) {
	s, ok := k.sets[name]
	if !ok {
		return IPSetSnap{}, false
	}
	return s.Snap(), true
}

func (k *IPSetKernel) Exists(name string) bool {
	_, ok := k.sets[name]
	return ok
}

// Names returns all set names in `ipset list -name` order (creation order).
func (k *IPSetKernel) Names() []string {
	names := make([]string, 0, len(k.sets))
	for n := range k.sets {
		names = append(names, n)
	}
	sort.Slice(names, func(i, j int) bool { return k.sets[names[i]].seq < k.sets[names[j]].seq })
	return names
}

// Snapshot returns a copy of the whole table keyed by name.
func (k *IPSetKernel) Snapshot() map[string]IPSetSnap {
	out := make(map[string]IPSetSnap, len(k.sets))
	for n, s := range k.sets {
		out[n] = s.Snap()
	}
	return out
}

// ---------------------------------------------------------------------------------------
// Member canonicalisation (what the kernel stores / `ipset list` prints).

func hostBits(family string) int {
	if family == "inet6" {
		return 128
	}
	return 32
}

func parseAddr(family, s string) (netip.Addr, error) {
	a, err := netip.ParseAddr(s)
	if err != nil {
		return a, fmt.Errorf("Syntax error: cannot parse %s: resolving to %s address failed", s, family)
	}
	if a.Is4In6() {
		a = a.Unmap()
	}
	if (family == "inet6") != a.Is6() {
		return a, fmt.Errorf("Syntax error: cannot parse %s: resolving to %s address failed", s, family)
	}
	return a, nil
}

func parseNet(family, s string) (netip.Prefix, error) {
	if !strings.Contains(s, "/") {
		a, err := parseAddr(family, s)
		if err != nil {
			return netip.Prefix{}, err
		}
		return netip.PrefixFrom(a, a.BitLen()), nil
	}
	p, err := netip.ParsePrefix(s)
	if err != nil {
		return p, fmt.Errorf("Syntax error: cannot parse %s", s)
	}
	if (family == "inet6") != p.Addr().Is6() {
		return p, fmt.Errorf("Syntax error: cannot parse %s: resolving to %s address failed", s, family)
	}
	if p.Bits() == 0 {
		return p, fmt.Errorf("The value of the CIDR parameter of the IP address is invalid")
	}
	return p.Masked(), nil
}

func printNet(p netip.Prefix) string {
	if p.Bits() == p.Addr().BitLen() {
		return p.Addr().String()
	}
	return p.String()
}

// CanonIPSetMember converts a member as written on an `ipset add` line into the form the
// kernel lists it in.  It is an independent re-statement of ipset's syntax for the five set
// types Felix uses; it does not call Felix code.
func CanonIPSetMember(typ, family, m string) (string, error) {
	switch typ {
	case "hash:ip":
		if i := strings.Index(m, "/"); i >= 0 {
			bits, err := strconv.Atoi(m[i+1:])
			if err != nil || bits != hostBits(family) {
				return "", fmt.Errorf("ktsim-gap: hash:ip range/CIDR member %q not modelled", m)
			}
			m = m[:i]
		}
		a, err := parseAddr(family, m)
		if err != nil {
			return "", err
		}
		return a.String(), nil
	case "hash:net":
		p, err := parseNet(family, m)
		if err != nil {
			return "", err
		}
		return printNet(p), nil
	case "hash:ip,port":
		parts := strings.Split(m, ",")
		if len(parts) != 2 {
			return "", fmt.Errorf("Syntax error: Second element is missing from %s", m)
		}
		a, err := parseAddr(family, parts[0])
		if err != nil {
			return "", err
		}
		pp := strings.Split(parts[1], ":")
		proto := "tcp"
		portStr := parts[1]
		if len(pp) == 2 {
			proto, portStr = strings.ToLower(pp[0]), pp[1]
		} else if len(pp) != 1 {
			return "", fmt.Errorf("Syntax error: cannot parse %s", parts[1])
		}
		switch proto {
		case "tcp", "udp", "sctp", "udplite":
		default:
			return "", fmt.Errorf("Syntax error: cannot parse '%s' as a protocol", proto)
		}
		port, err := strconv.Atoi(portStr)
		if err != nil || port < 0 || port > 65535 {
			return "", fmt.Errorf("Syntax error: cannot parse '%s' as a port", portStr)
		}
		return fmt.Sprintf("%s,%s:%d", a, proto, port), nil
	case "hash:net,net":
		parts := strings.Split(m, ",")
		if len(parts) != 2 {
			return "", fmt.Errorf("Syntax error: Second element is missing from %s", m)
		}
		p1, err := parseNet(family, parts[0])
		if err != nil {
			return "", err
		}
		p2, err := parseNet(family, parts[1])
		if err != nil {
			return "", err
		}
		return printNet(p1) + "," + printNet(p2), nil
	case "bitmap:port":
		port, err := strconv.Atoi(m)
		if err != nil || port < 0 || port > 65535 {
			return "", fmt.Errorf("Syntax error: cannot parse '%s' as a port", m)
		}
		return strconv.Itoa(port), nil
	}
	// Unknown / foreign type: members are opaque.
	return m, nil
}

// ---------------------------------------------------------------------------------------
// Line executor (the kernel side of `ipset restore`, also used for out-of-band edits).

func (k *IPSetKernel) gap(format string, a ...any) error {
	msg := fmt.Sprintf(format, a...)
	k.Gaps = append(k.Gaps, msg)
	return errors.New("ktsim-gap: " + msg)
}

// execLine executes one restore-grammar line.  It returns the names it changed and, on
// failure, the tool's error text and a cause.
func (k *IPSetKernel) execLine(line string) (touched []string, cause string, err error) {
	parts := strings.Fields(line)
	if len(parts) == 0 {
		return nil, "", nil
	}
	exist := false
	var args []string
	for _, p := range parts[1:] {
		if p == "--exist" || p == "-exist" || p == "-!" {
			exist = true
			continue
		}
		args = append(args, p)
	}
	sem := func(format string, a ...any) ([]string, string, error) {
		return nil, "semantic", fmt.Errorf(format, a...)
	}
	switch parts[0] {
	case "COMMIT":
		return nil, "", nil
	case "create", "-N", "n":
		if len(args) < 2 {
			return nil, "semantic", k.gap("create with too few args: %q", line)
		}
		name, typ := args[0], args[1]
		if len(name) > 31 {
			return sem("Syntax error: setname '%s' is longer than 31 characters", name)
		}
		s := &IPSet{Name: name, Type: typ, Members: map[string]struct{}{}, Revision: 4}
		opts := args[2:]
		if typ == "bitmap:port" {
			s.RangeMin, s.RangeMax = -1, -1
		} else {
			s.Family, s.MaxElem = "inet", 65536
		}
		for i := 0; i < len(opts); i += 2 {
			if i+1 >= len(opts) {
				return nil, "semantic", k.gap("create option without value: %q", line)
			}
			v := opts[i+1]
			switch opts[i] {
			case "family":
				if v != "inet" && v != "inet6" {
					return sem("Syntax error: unknown family %s", v)
				}
				s.Family = v
			case "maxelem":
				n, err := strconv.Atoi(v)
				if err != nil {
					return sem("Syntax error: '%s' is invalid as number", v)
				}
				s.MaxElem = n
			case "hashsize", "timeout", "bucketsize", "initval":
				// accepted, irrelevant to the model
			case "range":
				rp := strings.Split(v, "-")
				if len(rp) != 2 {
					return sem("Syntax error: cannot parse range %s", v)
				}
				lo, err1 := strconv.Atoi(rp[0])
				hi, err2 := strconv.Atoi(rp[1])
				if err1 != nil || err2 != nil || lo < 0 || hi > 65535 || lo > hi {
					return sem("Syntax error: cannot parse range %s", v)
				}
				s.RangeMin, s.RangeMax = lo, hi
			default:
				return nil, "semantic", k.gap("unknown create option %q in %q", opts[i], line)
			}
		}
		if typ == "bitmap:port" && s.RangeMin < 0 {
			return sem("Syntax error: mandatory option 'range' is missing")
		}
		if old, ok := k.sets[name]; ok {
			if exist && old.Type == typ {
				return nil, "", nil
			}
			return sem("Set cannot be created: set with the same name already exists")
		}
		k.nextSeq++
		s.seq = k.nextSeq
		k.sets[name] = s
		return []string{name}, "", nil
	case "add", "-A", "a", "del", "-D", "d":
		isAdd := parts[0] == "add" || parts[0] == "-A" || parts[0] == "a"
		if len(args) != 2 {
			return nil, "semantic", k.gap("add/del with unexpected args: %q", line)
		}
		s, ok := k.sets[args[0]]
		if !ok {
			return sem("The set with the given name does not exist")
		}
		m, err := CanonIPSetMember(s.Type, s.Family, args[1])
		if err != nil {
			if strings.HasPrefix(err.Error(), "ktsim-gap") {
				k.Gaps = append(k.Gaps, err.Error())
			}
			return nil, "semantic", err
		}
		_, present := s.Members[m]
		if isAdd {
			if s.Type == "bitmap:port" {
				p, _ := strconv.Atoi(m)
				if p < s.RangeMin || p > s.RangeMax {
					return sem("Element is out of the range of the set")
				}
			}
			if present {
				if exist {
					return nil, "", nil
				}
				return sem("Element cannot be added to the set: it's already added")
			}
			if s.Type != "bitmap:port" && s.MaxElem > 0 && len(s.Members) >= s.MaxElem {
				return sem("Hash is full, cannot add more elements")
			}
			s.Members[m] = struct{}{}
			return []string{s.Name}, "", nil
		}
		if !present {
			if exist {
				return nil, "", nil
			}
			return sem("Element cannot be deleted from the set: it's not added")
		}
		delete(s.Members, m)
		return []string{s.Name}, "", nil
	case "flush", "-F", "f":
		if len(args) != 1 {
			return nil, "semantic", k.gap("flush with unexpected args: %q", line)
		}
		s, ok := k.sets[args[0]]
		if !ok {
			return sem("The set with the given name does not exist")
		}
		if len(s.Members) == 0 {
			return nil, "", nil
		}
		s.Members = map[string]struct{}{}
		return []string{s.Name}, "", nil
	case "destroy", "-X", "x":
		if len(args) != 1 {
			return nil, "semantic", k.gap("destroy with unexpected args: %q", line)
		}
		name := args[0]
		if _, ok := k.sets[name]; !ok {
			return sem("The set with the given name does not exist")
		}
		if k.RuleRefs[name] {
			return nil, "ruleref", errors.New("Set cannot be destroyed: it is in use by a kernel component")
		}
		if k.ExtRefs[name] {
			return nil, "extref", errors.New("Set cannot be destroyed: it is in use by a kernel component")
		}
		delete(k.sets, name)
		return []string{name}, "", nil
	case "swap", "-W", "w":
		if len(args) != 2 {
			return nil, "semantic", k.gap("swap with unexpected args: %q", line)
		}
		a, okA := k.sets[args[0]]
		b, okB := k.sets[args[1]]
		if !okA || !okB {
			return sem("The set with the given name does not exist")
		}
		// Kernel: ip_set_swap requires identical type features and family; every one of the
		// five types has distinct features, so "same type name and family".
		if a.Type != b.Type || a.Family != b.Family {
			return sem("The sets cannot be swapped: their type does not match")
		}
		// The names (and the references, which we key by name) stay; contents swap.
		a.Name, b.Name = b.Name, a.Name
		a.seq, b.seq = b.seq, a.seq
		k.sets[args[0]], k.sets[args[1]] = b, a
		return []string{args[0], args[1]}, "", nil
	}
	return nil, "semantic", k.gap("unknown ipset restore command %q", line)
}

func (k *IPSetKernel) emit(ev IPSetEvent) {
	k.evSeq++
	ev.Seq = k.evSeq
	k.Log = append(k.Log, ev)
	if k.Observer != nil {
		k.Observer(k, &k.Log[len(k.Log)-1])
	}
}

// Exec executes one out-of-band command (restore grammar: "create …", "add …", "del …",
// "flush …", "destroy …", "swap …") on behalf of the harness / another program.
func (k *IPSetKernel) Exec(line string) error {
	touched, cause, err := k.execLine(line)
	ev := IPSetEvent{Cmd: "external", Line: line, Touched: touched, Cause: cause}
	if err != nil {
		ev.Err = err.Error()
	}
	k.emit(ev)
	return err
}

// MustExec is Exec for start-state construction; it panics on failure.
func (k *IPSetKernel) MustExec(lines ...string) {
	for _, l := range lines {
		if err := k.Exec(l); err != nil {
			panic(fmt.Sprintf("ktsim: start-state line %q failed: %v", l, err))
		}
	}
}

// SetUnlistable marks an existing set as having a revision the userspace tool cannot list.
func (k *IPSetKernel) SetUnlistable(name string, v bool) {
	if s, ok := k.sets[name]; ok {
		s.Unlistable = v
	}
}

// ---------------------------------------------------------------------------------------
// The `ipset` tool.

// NewCmd is the command factory to hand to ipsets.NewIPSetsWithShims.
func (k *IPSetKernel) NewCmd(name string, arg ...string) ipsets.CmdIface {
	k.cmdSeq++
	base := ipsetCmdBase{k: k, seq: k.cmdSeq, argv: append([]string{name}, arg...)}
	if name != "ipset" || len(arg) == 0 {
		k.Gaps = append(k.Gaps, fmt.Sprintf("unexpected command %v", base.argv))
		return &ipsetBadCmd{base}
	}
	switch arg[0] {
	case "restore":
		if len(arg) != 1 {
			k.Gaps = append(k.Gaps, fmt.Sprintf("unexpected restore args %v", arg))
		}
		c := &ipsetRestoreCmd{ipsetCmdBase: base}
		if len(k.RestoreFaults) > 0 {
			f := k.RestoreFaults[0]
			k.RestoreFaults = k.RestoreFaults[1:]
			c.fault = &f
		}
		return c
	case "list":
		if len(arg) != 2 {
			k.Gaps = append(k.Gaps, fmt.Sprintf("unexpected list args %v", arg))
			return &ipsetBadCmd{base}
		}
		c := &ipsetListCmd{ipsetCmdBase: base, target: arg[1]}
		if len(k.ListFaults) > 0 {
			f := k.ListFaults[0]
			k.ListFaults = k.ListFaults[1:]
			c.fault = &f
		}
		return c
	case "destroy":
		if len(arg) != 2 {
			k.Gaps = append(k.Gaps, fmt.Sprintf("unexpected destroy args %v", arg))
			return &ipsetBadCmd{base}
		}
		c := &ipsetDestroyCmd{ipsetCmdBase: base, target: arg[1]}
		if len(k.DestroyFaults) > 0 {
			c.fail = k.DestroyFaults[0]
			k.DestroyFaults = k.DestroyFaults[1:]
		}
		return c
	}
	k.Gaps = append(k.Gaps, fmt.Sprintf("unexpected ipset sub-command %v", arg))
	return &ipsetBadCmd{base}
}

type ipsetCmdBase struct {
	k      *IPSetKernel
	seq    int
	argv   []string
	stdout io.Writer
	stderr io.Writer
}

func (c *ipsetCmdBase) SetStdin(io.Reader)   {}
func (c *ipsetCmdBase) SetStdout(w io.Writer) { c.stdout = w }
func (c *ipsetCmdBase) SetStderr(w io.Writer) { c.stderr = w }
func (c *ipsetCmdBase) errOut(msg string) {
	if c.stderr != nil {
		_, _ = c.stderr.Write([]byte(msg))
	}
}
func (c *ipsetCmdBase) unsupported(what string) error {
	c.k.Gaps = append(c.k.Gaps, fmt.Sprintf("%v: %s not supported by simulator", c.argv, what))
	return errors.New("ktsim-gap: " + what + " unsupported")
}

type ipsetBadCmd struct{ ipsetCmdBase }

func (c *ipsetBadCmd) StdinPipe() (ipsets.WriteCloserFlusher, error) { return nil, c.unsupported("StdinPipe") }
func (c *ipsetBadCmd) StdoutPipe() (io.ReadCloser, error)            { return nil, c.unsupported("StdoutPipe") }
func (c *ipsetBadCmd) Start() error                                  { return c.unsupported("Start") }
func (c *ipsetBadCmd) Wait() error                                   { return c.unsupported("Wait") }
func (c *ipsetBadCmd) Output() ([]byte, error)                       { return nil, c.unsupported("Output") }
func (c *ipsetBadCmd) CombinedOutput() ([]byte, error)               { return nil, c.unsupported("CombinedOutput") }

// --- restore

type ipsetRestoreCmd struct {
	ipsetCmdBase
	fault   *RestoreFault
	pipe    *ipsetStdin
	started bool
}

type ipsetStdin struct {
	buf       bytes.Buffer
	writes    int
	failAt    int // fail the failAt-th Write and all later ones (0 = never)
	failed    bool
	closeFail bool
	closed    bool
}

func (p *ipsetStdin) Write(b []byte) (int, error) {
	p.writes++
	if p.closed {
		return 0, io.ErrClosedPipe
	}
	if p.failAt > 0 && p.writes >= p.failAt {
		p.failed = true
		return 0, fmt.Errorf("write |1: broken pipe (%w)", ErrInjected)
	}
	return p.buf.Write(b)
}
func (p *ipsetStdin) Flush() error { return nil }
func (p *ipsetStdin) Close() error {
	p.closed = true
	if p.closeFail {
		return fmt.Errorf("close |1: %w", ErrInjected)
	}
	return nil
}

func (c *ipsetRestoreCmd) StdinPipe() (ipsets.WriteCloserFlusher, error) {
	if c.fault != nil && c.fault.Kind == "pipe" {
		c.k.emit(IPSetEvent{CmdSeq: c.seq, Cmd: "restore", Line: "<StdinPipe>", Err: ErrInjected.Error(), Cause: "injected"})
		return nil, ErrInjected
	}
	c.pipe = &ipsetStdin{}
	if c.fault != nil && c.fault.Kind == "write" {
		c.pipe.failAt = c.fault.At
		if c.pipe.failAt < 1 {
			c.pipe.failAt = 1
		}
	}
	if c.fault != nil && c.fault.Kind == "close" {
		c.pipe.closeFail = true
	}
	return c.pipe, nil
}
func (c *ipsetRestoreCmd) StdoutPipe() (io.ReadCloser, error) { return nil, c.unsupported("StdoutPipe") }
func (c *ipsetRestoreCmd) Output() ([]byte, error)            { return nil, c.unsupported("Output") }
func (c *ipsetRestoreCmd) CombinedOutput() ([]byte, error)    { return nil, c.unsupported("CombinedOutput") }

func (c *ipsetRestoreCmd) Start() error {
	if c.fault != nil && c.fault.Kind == "start" {
		c.k.emit(IPSetEvent{CmdSeq: c.seq, Cmd: "restore", Line: "<Start>", Err: ErrInjected.Error(), Cause: "injected"})
		return ErrInjected
	}
	c.started = true
	return nil
}

// Wait runs the whole session: the tool reads stdin line by line, each line takes effect
// immediately (ipset restore is not atomic).
func (c *ipsetRestoreCmd) Wait() error {
	if !c.started {
		return c.unsupported("Wait before Start")
	}
	k := c.k
	fail := func(lineNo int, line, msg, cause string) error {
		k.emit(IPSetEvent{CmdSeq: c.seq, Cmd: "restore", LineNo: lineNo, Line: line, Err: msg, Cause: cause})
		c.errOut(fmt.Sprintf("ipset v7.11: Error in line %d: %s\n", lineNo, msg))
		return &ExitError{Tool: "ipset restore", Status: 1, Msg: msg}
	}
	if c.fault != nil && c.fault.Kind == "pre" {
		return fail(0, "<pre>", ErrInjected.Error(), "injected")
	}
	if c.pipe == nil {
		return fail(0, "<no stdin>", "no input", "injected")
	}
	data := c.pipe.buf.Bytes()
	// Only complete lines are seen by the tool.
	if i := bytes.LastIndexByte(data, '\n'); i >= 0 {
		data = data[:i+1]
	} else {
		data = nil
	}
	sc := bufio.NewScanner(bytes.NewReader(data))
	sc.Buffer(make([]byte, 0, 64*1024), 16*1024*1024)
	lineNo := 0
	for sc.Scan() {
		line := sc.Text()
		lineNo++
		if strings.TrimSpace(line) == "" {
			continue
		}
		if c.fault != nil && c.fault.Kind == "line" && lineNo == c.fault.At {
			return fail(lineNo, line, ErrInjected.Error(), "injected")
		}
		touched, cause, err := k.execLine(line)
		if err != nil {
			return fail(lineNo, line, err.Error(), cause)
		}
		k.emit(IPSetEvent{CmdSeq: c.seq, Cmd: "restore", LineNo: lineNo, Line: line, Touched: touched})
	}
	if c.pipe.failed {
		return fail(lineNo+1, "<EOF after broken pipe>", ErrInjected.Error(), "injected")
	}
	if c.fault != nil && c.fault.Kind == "exit" {
		return fail(lineNo+1, "<exit>", ErrInjected.Error(), "injected")
	}
	return nil
}

// --- destroy

type ipsetDestroyCmd struct {
	ipsetCmdBase
	target string
	fail   bool
}

func (c *ipsetDestroyCmd) StdinPipe() (ipsets.WriteCloserFlusher, error) {
	return nil, c.unsupported("StdinPipe")
}
func (c *ipsetDestroyCmd) StdoutPipe() (io.ReadCloser, error) { return nil, c.unsupported("StdoutPipe") }
func (c *ipsetDestroyCmd) Start() error                       { return c.unsupported("Start") }
func (c *ipsetDestroyCmd) Wait() error                        { return c.unsupported("Wait") }
func (c *ipsetDestroyCmd) Output() ([]byte, error)            { return c.CombinedOutput() }
func (c *ipsetDestroyCmd) CombinedOutput() ([]byte, error) {
	line := "destroy " + c.target
	if c.fail {
		c.k.emit(IPSetEvent{CmdSeq: c.seq, Cmd: "destroy", Line: line, Err: ErrInjected.Error(), Cause: "injected"})
		return []byte("ipset v7.11: Kernel error received: Resource busy\n"), &ExitError{Tool: "ipset destroy", Status: 1, Msg: "injected"}
	}
	touched, cause, err := c.k.execLine(line)
	if err != nil {
		c.k.emit(IPSetEvent{CmdSeq: c.seq, Cmd: "destroy", Line: line, Err: err.Error(), Cause: cause})
		return []byte("ipset v7.11: " + err.Error() + "\n"), &ExitError{Tool: "ipset destroy", Status: 1, Msg: err.Error()}
	}
	c.k.emit(IPSetEvent{CmdSeq: c.seq, Cmd: "destroy", Line: line, Touched: touched})
	return nil, nil
}

// --- list

type ipsetListCmd struct {
	ipsetCmdBase
	target  string
	fault   *ListFault
	out     *ipsetStdout
	exitErr error
	started bool
}

type ipsetStdout struct {
	r       *bytes.Reader
	readErr bool // return an error once the data is exhausted (instead of EOF)
}

func (o *ipsetStdout) Read(p []byte) (int, error) {
	n, err := o.r.Read(p)
	if err == io.EOF && o.readErr {
		return n, fmt.Errorf("read |0: %w", ErrInjected)
	}
	return n, err
}
func (o *ipsetStdout) Close() error { return nil }

func (c *ipsetListCmd) StdinPipe() (ipsets.WriteCloserFlusher, error) {
	return nil, c.unsupported("StdinPipe")
}
func (c *ipsetListCmd) CombinedOutput() ([]byte, error) { return nil, c.unsupported("CombinedOutput") }
func (c *ipsetListCmd) Output() ([]byte, error)         { return nil, c.unsupported("Output") }

func (c *ipsetListCmd) cmdName() string {
	if c.target == "-name" || c.target == "-n" {
		return "list-names"
	}
	return "list"
}

func (c *ipsetListCmd) StdoutPipe() (io.ReadCloser, error) {
	if c.fault != nil && c.fault.Kind == "pipe" {
		c.k.emit(IPSetEvent{CmdSeq: c.seq, Cmd: c.cmdName(), Line: "list " + c.target, Err: ErrInjected.Error(), Cause: "injected"})
		return nil, ErrInjected
	}
	c.out = &ipsetStdout{r: bytes.NewReader(nil)}
	return c.out, nil
}

// memberOrder gives the deterministic, non-lexical order members are listed in (a stand-in
// for the kernel's hash order).
func memberOrder(ms []string) {
	h := func(s string) uint32 {
		f := fnv.New32a()
		_, _ = f.Write([]byte(s))
		return f.Sum32()
	}
	sort.Slice(ms, func(i, j int) bool {
		hi, hj := h(ms[i]), h(ms[j])
		if hi != hj {
			return hi < hj
		}
		return ms[i] < ms[j]
	})
}

// ListOutput renders what `ipset list NAME` prints for the set.
func (s *IPSet) ListOutput() string {
	var b strings.Builder
	fmt.Fprintf(&b, "Name: %s\n", s.Name)
	fmt.Fprintf(&b, "Type: %s\n", s.Type)
	fmt.Fprintf(&b, "Revision: %d\n", s.Revision)
	if s.Type == "bitmap:port" {
		fmt.Fprintf(&b, "Header: range %d-%d\n", s.RangeMin, s.RangeMax)
	} else {
		fmt.Fprintf(&b, "Header: family %s hashsize 1024 maxelem %d\n", s.Family, s.MaxElem)
	}
	fmt.Fprintf(&b, "Size in memory: %d\n", 200+len(s.Members)*24)
	fmt.Fprintf(&b, "References: 0\n")
	fmt.Fprintf(&b, "Number of entries: %d\n", len(s.Members))
	fmt.Fprintf(&b, "Members:\n")
	ms := make([]string, 0, len(s.Members))
	for m := range s.Members {
		ms = append(ms, m)
	}
	memberOrder(ms)
	for _, m := range ms {
		b.WriteString(m)
		b.WriteByte('\n')
	}
	return b.String()
}

func (c *ipsetListCmd) Start() error {
	k := c.k
	line := "list " + c.target
	if c.fault != nil && c.fault.Kind == "start" {
		k.emit(IPSetEvent{CmdSeq: c.seq, Cmd: c.cmdName(), Line: line, Err: ErrInjected.Error(), Cause: "injected"})
		return ErrInjected
	}
	if c.out == nil {
		return c.unsupported("Start without StdoutPipe")
	}
	c.started = true
	var out string
	if c.cmdName() == "list-names" {
		for _, n := range k.Names() {
			out += n + "\n"
		}
	} else {
		s, ok := k.sets[c.target]
		switch {
		case !ok:
			msg := "The set with the given name does not exist"
			c.errOut("ipset v7.11: " + msg + "\n")
			c.exitErr = &ExitError{Tool: "ipset list", Status: 1, Msg: msg}
			k.emit(IPSetEvent{CmdSeq: c.seq, Cmd: "list", Line: line, Err: msg, Cause: "semantic"})
			return nil
		case s.Unlistable:
			msg := "Kernel and userspace incompatible: settype " + s.Type + " with revision " + strconv.Itoa(s.Revision+1) + " not supported by userspace"
			c.errOut("ipset v7.11: " + msg + "\n")
			c.exitErr = &ExitError{Tool: "ipset list", Status: 1, Msg: msg}
			k.emit(IPSetEvent{CmdSeq: c.seq, Cmd: "list", Line: line, Err: msg, Cause: "semantic"})
			return nil
		}
		out = s.ListOutput()
	}
	ev := IPSetEvent{CmdSeq: c.seq, Cmd: c.cmdName(), Line: line}
	if c.fault != nil {
		switch c.fault.Kind {
		case "rc":
			c.exitErr = &ExitError{Tool: "ipset list", Status: 1, Msg: "injected"}
			ev.Err, ev.Cause = ErrInjected.Error(), "injected"
		case "trunc", "read":
			lines := strings.SplitAfter(out, "\n")
			n := c.fault.At
			if n < 0 {
				n = 0
			}
			if n > len(lines) {
				n = len(lines)
			}
			out = strings.Join(lines[:n], "")
			if c.fault.Kind == "read" {
				c.out.readErr = true
			}
			c.exitErr = &ExitError{Tool: "ipset list", Status: 1, Msg: "injected"}
			ev.Err, ev.Cause = ErrInjected.Error(), "injected"
		}
	}
	c.out.r = bytes.NewReader([]byte(out))
	k.emit(ev)
	return nil
}

func (c *ipsetListCmd) Wait() error {
	if !c.started {
		return c.unsupported("Wait before Start")
	}
	return c.exitErr
}
