package nfsim

import "fmt"

// Path layer: a minimal model of the netfilter hooks, enough to send one packet through
// Felix's chains in several tables the way the kernel orders them.  Each Table owns one
// Ruleset (iptables) or shares one (nftables layers) and names, per hook, the Felix chain the
// kernel's base chain jumps to (e.g. filter/FORWARD -> "cali-FORWARD").  Only Felix's own
// rules exist in the simulation: when the Felix chain returns, the rest of the kernel chain
// (other software's rules, then the base chain's policy) is taken as "continue".

// Hook names.
const (
	HookPrerouting  = "PREROUTING"
	HookInput       = "INPUT"
	HookForward     = "FORWARD"
	HookOutput      = "OUTPUT"
	HookPostrouting = "POSTROUTING"
)

// Table is one netfilter table (raw, mangle, nat, filter) as Felix programs it.
type Table struct {
	Name  string
	RS    *Ruleset
	Hooks map[string]string // hook -> entry chain inside RS ("" / absent: table not hooked there)
}

// tableOrder is the kernel's priority order at every hook.
var tableOrder = map[string]int{"raw": 0, "mangle": 1, "nat": 2, "filter": 3}

// Step is the outcome of one table at one hook.
type Step struct {
	Hook, Table string
	Result      *Result
}

// PathResult is the fate of the packet over the whole path.
type PathResult struct {
	// Verdict is VerdictDrop/VerdictReject if some table dropped the packet, otherwise
	// VerdictAccept (the packet survived every hook given).
	Verdict Verdict
	Steps   []Step
	Mark    uint32
	CTMark  uint32
	NoTrack bool
}

// Reached reports whether any step entered the chain.
func (p *PathResult) Reached(chain string) bool {
	for _, s := range p.Steps {
		if s.Result.Reached(chain) {
			return true
		}
	}
	return false
}

// RunPath walks the packet through the given hooks in order (e.g. PREROUTING, FORWARD,
// POSTROUTING for forwarded traffic), at each hook through the tables in kernel priority
// order.  The packet mark and conntrack mark carry over between tables and hooks; a DROP or
// REJECT ends the walk; ACCEPT (iptables: ends that table's traversal for the hook; nftables:
// ends that base chain) and RETURN both continue with the next table.  between, if non-nil,
// is called before each hook so that the harness can model routing / NAT side effects
// (changing OutIf, addresses, CTState) between hooks.
func RunPath(tables []*Table, hooks []string, pkt *Packet, between func(hook string, p *Packet)) (*PathResult, error) {
	for _, t := range tables {
		if _, ok := tableOrder[t.Name]; !ok {
			return nil, gapf("unknown table %q", t.Name)
		}
	}
	p := *pkt
	out := &PathResult{Verdict: VerdictAccept}
	for _, h := range hooks {
		if between != nil {
			between(h, &p)
		}
		for prio := 0; prio <= 3; prio++ {
			for _, t := range tables {
				if tableOrder[t.Name] != prio {
					continue
				}
				entry := t.Hooks[h]
				if entry == "" {
					continue
				}
				res, err := t.RS.Run(entry, &p)
				if err != nil {
					return nil, fmt.Errorf("table %s hook %s: %w", t.Name, h, err)
				}
				out.Steps = append(out.Steps, Step{Hook: h, Table: t.Name, Result: res})
				p.Mark, p.CTMark = res.Mark, res.CTMark
				out.Mark, out.CTMark = res.Mark, res.CTMark
				if res.NoTrack {
					out.NoTrack = true
					p.CTState = "UNTRACKED"
				}
				if res.Verdict == VerdictDrop || res.Verdict == VerdictReject {
					out.Verdict = res.Verdict
					return out, nil
				}
			}
		}
	}
	return out, nil
}
