// Package nfsim is a small interpreter for netfilter rules *as text*: the "-A chain ..."
// lines Felix feeds to iptables-restore and the nftables rule expressions it hands to
// knftables.  It exists so that harnesses can EXECUTE what Felix renders instead of comparing
// text.  Only the fragments Felix can emit are understood (enumerated from
// felix/iptables/{match_builder,actions}.go and felix/nftables/{match_builder,actions}.go);
// anything else is a *GapError ("HARNESS-GAP: ..."), never a verdict.  Text that the real
// tools are known to reject (checked against iptables-restore 1.8.9 --test and nft 1.0.6 -c)
// is an *InvalidError.
//
// Semantics: first-match rule walk; jump pushes a return frame, goto does not; end of a
// chain or RETURN pops a frame; leaving the entry chain yields VerdictReturn; ACCEPT/DROP/
// REJECT (and the NAT targets) terminate; every other target/statement continues with the
// next rule.  nftables rules are evaluated strictly left to right (a false expression ends
// the rule; statements before it have already taken effect), verdict maps dispatch on the
// interface name and fall through to the next rule when the key is absent.
package nfsim

import (
	"fmt"
	"net/netip"
	"sort"
	"strings"
)

// Packet is everything Felix's rules can look at.
type Packet struct {
	IPVersion int // 4 or 6; must equal the ruleset's version
	Proto     uint8
	Src, Dst  netip.Addr
	// SrcPort/DstPort are read for TCP, UDP, SCTP, UDPLite (and DCCP); 0 otherwise.
	SrcPort, DstPort   uint16
	ICMPType, ICMPCode uint8 // read when Proto is 1 (v4) / 58 (v6)
	InIf, OutIf        string
	Mark, CTMark       uint32

	CTState        string // "NEW", "ESTABLISHED", "RELATED", "INVALID", "UNTRACKED"
	CTDNAT, CTSNAT bool   // conntrack status DNAT / SNAT (ctstate DNAT/SNAT virtual states)

	SrcAddrType, DstAddrType string // "LOCAL", "UNICAST", "BROADCAST", "MULTICAST", ... ("" = UNICAST)
	SrcAddrTypeOutIf         string // src address type restricted to the out interface ("" = SrcAddrType)

	RPFFail       bool // reverse-path check fails
	IPVS          bool // packet belongs to an IPVS connection
	LimitOK       bool // outcome of every rate-limit match ("under the limit")
	TCPSyn        bool // TCP packet with only SYN of FIN,SYN,RST,ACK set
	ConnLimitOver bool // connlimit / "ct count over" outcome

	ARPOp    string // nftables arp family only
	ARPSrcIP string
}

type Verdict int

const (
	// VerdictReturn: evaluation left the entry chain (RETURN or end of chain) without a
	// terminal verdict.
	VerdictReturn Verdict = iota
	VerdictAccept
	VerdictDrop
	VerdictReject
)

func (v Verdict) String() string {
	return [...]string{"RETURN", "ACCEPT", "DROP", "REJECT"}[v]
}

// RuleRef identifies a rule.
type RuleRef struct {
	Chain string
	Index int
}

// Result is what happened to one packet.
type Result struct {
	Verdict Verdict
	Mark    uint32
	CTMark  uint32
	// Chains lists every chain entered, in order (entry chain first).
	Chains []string
	// Matched lists every rule whose match part was fully true (action executed), in order.
	Matched []RuleRef
	Logs    []string // LOG prefixes, in order
	NFLogs  []string // NFLOG prefixes, in order
	NoTrack bool
	Offload bool
	DSCP    int    // -1 if never set
	NAT     string // text of the NAT target that terminated evaluation, if any
	// Final is the rule that produced the terminal verdict (Chain=="" if evaluation simply
	// ran off the entry chain).
	Final RuleRef
	Steps int
}

// Reached reports whether control entered the named chain.
func (r *Result) Reached(chain string) bool {
	for _, c := range r.Chains {
		if c == chain {
			return true
		}
	}
	return false
}

// IPPort is a member of a hash:ip,port set / nft "addr . proto . port" set.
type IPPort struct {
	Addr  netip.Addr
	Proto uint8
	Port  uint16
}

// Set is the content of one dataplane IP set.  Exactly one of the two kinds is used.
type Set struct {
	IPPortType bool // true: hash:ip,port (IPPorts), false: hash:net / hash:ip (Nets)
	Nets       []netip.Prefix
	IPPorts    []IPPort
}

// GapError: the interpreter met text it does not understand.
type GapError struct{ Msg string }

func (e *GapError) Error() string { return "HARNESS-GAP: nfsim: " + e.Msg }

// InvalidError: text the real iptables-restore / nft / kernel rejects.
type InvalidError struct{ Msg string }

func (e *InvalidError) Error() string { return "nfsim: rule text rejected by the real tools: " + e.Msg }

func gapf(format string, a ...any) error     { return &GapError{fmt.Sprintf(format, a...)} }
func invalidf(format string, a ...any) error { return &InvalidError{fmt.Sprintf(format, a...)} }

type Kind int

const (
	Iptables Kind = iota
	NFT
)

// Ruleset is a set of chains of one table (or one nftables table with namespaced chains) for
// one IP version.
type Ruleset struct {
	Kind      Kind
	IPVersion int
	// Sets: dataplane IP set name -> content.  For nftables the name is the legalized one
	// that appears after '@' in the rule text.
	Sets map[string]*Set
	// Maps: nftables verdict maps: name (as it appears after '@') -> key -> verdict text
	// ("goto <chain>", "jump <chain>", "return", "accept", "drop").
	Maps map[string]map[string]string
	// Unloadable: set names that the harness can attribute (e.g. Felix's name for one of the
	// rule's own set IDs but for the OTHER IP version) and that a table of this IP version
	// cannot reference: ip(6)tables-restore rejects a set of the other family ("The protocol
	// family of set X is IPv4, which is not applicable"), and an nftables ip/ip6 table simply
	// does not contain the other family's sets.  name -> reason.  A rule naming such a set makes
	// the load fail (*InvalidError); a name found in neither Sets nor Unloadable stays a gap.
	Unloadable map[string]string
	chains     map[string]*chain
	setsOK     bool
	setsFP     [2]int
	order      []string
	err        error
	// MaxSteps bounds the number of rule evaluations per packet (loop guard).
	MaxSteps int
}

type chain struct {
	name  string
	rules []*rule
	stub  bool
}

type rule struct {
	text  string
	items []item // evaluated left to right
	// setRefs: every IP set the rule text names, with the number of dimensions the match
	// supplies (1: address, 2: address+port).  Checked as a whole by CheckSets, because a
	// reference the real tools cannot resolve fails the LOAD of the chain, for every packet.
	setRefs []setRef
}

type setRef struct {
	name string
	dims int
}

// item is either a condition or a statement.
type item struct {
	cond func(st *state) (bool, error)
	stmt func(st *state) (*outcome, error)
}

type outcomeKind int

const (
	oContinue outcomeKind = iota // next item / next rule
	oAccept
	oDrop
	oReject
	oReturn
	oJump
	oGoto
	oNAT
)

type outcome struct {
	kind   outcomeKind
	target string
}

type state struct {
	rs  *Ruleset
	pkt Packet // working copy (Mark/CTMark mutate)
	res *Result
}

func New(kind Kind, ipVersion int) *Ruleset {
	return &Ruleset{Kind: kind, IPVersion: ipVersion, Sets: map[string]*Set{}, Maps: map[string]map[string]string{}, Unloadable: map[string]string{},
		chains: map[string]*chain{}, MaxSteps: 200000}
}

// Err returns the first load/parse error.
func (rs *Ruleset) Err() error { return rs.err }

func (rs *Ruleset) fail(err error) {
	if rs.err == nil {
		rs.err = err
	}
}

func (rs *Ruleset) getChain(name string) *chain {
	c := rs.chains[name]
	if c == nil {
		c = &chain{name: name}
		rs.chains[name] = c
		rs.order = append(rs.order, name)
	}
	return c
}

// ReplaceChain (re)defines a chain from rule texts: iptables "-A <chain> ..." lines (the
// chain in the line must be the given one) or nftables rule expressions.
func (rs *Ruleset) ReplaceChain(name string, ruleTexts []string) {
	c := rs.getChain(name)
	c.rules = nil
	c.stub = false
	rs.setsOK = false
	for _, t := range ruleTexts {
		var r *rule
		var err error
		if rs.Kind == Iptables {
			r, err = parseIptablesLine(rs, name, t)
		} else {
			r, err = parseNFTRule(rs, t)
		}
		if err != nil {
			rs.fail(wrapErr(err, name, t))
			return
		}
		c.rules = append(c.rules, r)
	}
}

func wrapErr(err error, chain, text string) error {
	switch e := err.(type) {
	case *GapError:
		return &GapError{fmt.Sprintf("%s (chain %q rule %q)", e.Msg, chain, text)}
	case *InvalidError:
		return &InvalidError{fmt.Sprintf("%s (chain %q rule %q)", e.Msg, chain, text)}
	}
	return err
}

// Stub defines an empty chain that only records arrival (stands in for chains the harness
// does not render, e.g. per-endpoint chains below a dispatch chain).
func (rs *Ruleset) Stub(name string) {
	c := rs.getChain(name)
	c.rules = nil
	c.stub = true
}

// HasChain reports whether the chain is defined (stub or real).
func (rs *Ruleset) HasChain(name string) bool { return rs.chains[name] != nil }

// ChainNames returns the defined chains in definition order.
func (rs *Ruleset) ChainNames() []string { return append([]string(nil), rs.order...) }

// Dump renders the loaded text (for failure messages).
func (rs *Ruleset) Dump() string {
	var b strings.Builder
	for _, n := range rs.order {
		c := rs.chains[n]
		if c.stub {
			fmt.Fprintf(&b, "chain %s (stub)\n", n)
			continue
		}
		fmt.Fprintf(&b, "chain %s\n", n)
		for i, r := range c.rules {
			fmt.Fprintf(&b, "  [%d] %s\n", i, r.text)
		}
	}
	var mk []string
	for m := range rs.Maps {
		mk = append(mk, m)
	}
	sort.Strings(mk)
	for _, m := range mk {
		var ks []string
		for k := range rs.Maps[m] {
			ks = append(ks, k)
		}
		sort.Strings(ks)
		fmt.Fprintf(&b, "map %s\n", m)
		for _, k := range ks {
			fmt.Fprintf(&b, "  %q : %s\n", k, rs.Maps[m][k])
		}
	}
	return b.String()
}

// Run sends one packet through the ruleset starting at the entry chain.
func (rs *Ruleset) Run(entry string, pkt *Packet) (*Result, error) {
	if rs.err != nil {
		return nil, rs.err
	}
	if err := rs.CheckSets(); err != nil {
		return nil, err
	}
	if pkt.IPVersion != rs.IPVersion {
		return nil, gapf("packet IP version %d on an IPv%d ruleset", pkt.IPVersion, rs.IPVersion)
	}
	if pkt.Src.Is6() != (rs.IPVersion == 6) || pkt.Dst.Is6() != (rs.IPVersion == 6) {
		return nil, gapf("packet addresses %s/%s do not fit IPv%d", pkt.Src, pkt.Dst, rs.IPVersion)
	}
	c := rs.chains[entry]
	if c == nil {
		return nil, gapf("entry chain %q is not defined", entry)
	}
	res := &Result{DSCP: -1}
	st := &state{rs: rs, pkt: *pkt, res: res}
	type frame struct {
		c  *chain
		pc int
	}
	var stack []frame
	cur, pc := c, 0
	res.Chains = append(res.Chains, cur.name)
	finish := func(v Verdict) (*Result, error) {
		res.Verdict = v
		res.Mark = st.pkt.Mark
		res.CTMark = st.pkt.CTMark
		return res, nil
	}
	for {
		if pc >= len(cur.rules) {
			// End of chain: return to the caller.
			if len(stack) == 0 {
				return finish(VerdictReturn)
			}
			f := stack[len(stack)-1]
			stack = stack[:len(stack)-1]
			cur, pc = f.c, f.pc
			continue
		}
		res.Steps++
		if res.Steps > rs.MaxSteps {
			return nil, gapf("more than %d rule evaluations (loop?) in chain %q", rs.MaxSteps, cur.name)
		}
		r := cur.rules[pc]
		ref := RuleRef{cur.name, pc}
		pc++
		var out *outcome
		matched := true
		for _, it := range r.items {
			if it.cond != nil {
				ok, err := it.cond(st)
				if err != nil {
					return nil, wrapErr(err, cur.name, r.text)
				}
				if !ok {
					matched = false
					break
				}
				continue
			}
			o, err := it.stmt(st)
			if err != nil {
				return nil, wrapErr(err, cur.name, r.text)
			}
			if o != nil && o.kind != oContinue {
				out = o
				break
			}
		}
		if matched || out != nil {
			res.Matched = append(res.Matched, ref)
		}
		if out == nil {
			continue
		}
		switch out.kind {
		case oAccept:
			res.Final = ref
			return finish(VerdictAccept)
		case oDrop:
			res.Final = ref
			return finish(VerdictDrop)
		case oReject:
			res.Final = ref
			return finish(VerdictReject)
		case oNAT:
			res.Final = ref
			res.NAT = out.target
			return finish(VerdictAccept)
		case oReturn:
			if len(stack) == 0 {
				res.Final = ref
				return finish(VerdictReturn)
			}
			f := stack[len(stack)-1]
			stack = stack[:len(stack)-1]
			cur, pc = f.c, f.pc
		case oJump, oGoto:
			t := rs.chains[out.target]
			if t == nil {
				return nil, wrapErr(invalidf("jump/goto to undefined chain %q", out.target), cur.name, r.text)
			}
			if out.kind == oJump {
				if len(stack) > 64 {
					return nil, gapf("jump stack deeper than 64 in chain %q", cur.name)
				}
				stack = append(stack, frame{cur, pc})
			}
			cur, pc = t, 0
			res.Chains = append(res.Chains, cur.name)
		}
	}
}

// ---- helpers shared by both front ends ----

var protoNames = map[string]uint8{
	"icmp": 1, "igmp": 2, "ipencap": 4, "ipip": 4, "tcp": 6, "udp": 17, "dccp": 33, "ipv6": 41, "gre": 47,
	"esp": 50, "ah": 51, "icmpv6": 58, "ipv6-icmp": 58, "sctp": 132, "udplite": 136, "vrrp": 112,
}

func hasPortsProto(p uint8) bool {
	switch p {
	case 6, 17, 132, 136, 33:
		return true
	}
	return false
}

// ipsetPort is the "port" ipset / nft "th" extracts for a protocol: the real port for the
// port-bearing protocols, 0 otherwise (no Felix-written member has such a protocol).
func (p *Packet) l4(src bool) uint16 {
	if !hasPortsProto(p.Proto) {
		return 0
	}
	if src {
		return p.SrcPort
	}
	return p.DstPort
}

// CheckSets validates every IP set reference of every loaded rule the way the real tools do
// at load time.  A reference to a set in Unloadable, or (nftables) a lookup whose key type
// does not agree with the set's type, is an *InvalidError: the chain cannot be programmed, so
// no rule in it ever takes its action.  A name the harness never mentioned is a *GapError.
// An iptables match that supplies fewer dimensions than the set type needs loads fine and is
// handled at run time (the kernel's ip_set_test() then reports "no match").  Run calls this
// itself; the result is cached until chains or the number of sets change.
func (rs *Ruleset) CheckSets() error {
	fp := [2]int{len(rs.Sets), len(rs.Unloadable)}
	if rs.setsOK && rs.setsFP == fp {
		return nil
	}
	var gap error
	for _, cn := range rs.order {
		c := rs.chains[cn]
		if c == nil {
			continue
		}
		for _, r := range c.rules {
			for _, ref := range r.setRefs {
				if why, bad := rs.Unloadable[ref.name]; bad {
					return wrapErr(invalidf("IP set %q cannot be referenced from an IPv%d table: %s", ref.name, rs.IPVersion, why), cn, r.text)
				}
				s := rs.Sets[ref.name]
				if s == nil {
					if gap == nil {
						gap = wrapErr(gapf("IP set %q referenced by a rule is not defined by the harness", ref.name), cn, r.text)
					}
					continue
				}
				if rs.Kind == NFT {
					if ref.dims == 1 && s.IPPortType {
						return wrapErr(invalidf("nft: plain address looked up in set %q whose type is addr . inet_proto . inet_service (datatype mismatch)", ref.name), cn, r.text)
					}
					if ref.dims == 2 && !s.IPPortType {
						return wrapErr(invalidf("nft: addr . proto . port concatenation looked up in set %q whose type is a plain address (datatype mismatch)", ref.name), cn, r.text)
					}
				}
			}
		}
	}
	if gap != nil {
		return gap
	}
	rs.setsOK, rs.setsFP = true, fp
	return nil
}

func (st *state) setLookup(name string) (*Set, error) {
	s := st.rs.Sets[name]
	if s == nil {
		return nil, gapf("IP set %q referenced by a rule is not defined by the harness", name)
	}
	return s, nil
}

func (s *Set) hasAddr(a netip.Addr) bool {
	for _, n := range s.Nets {
		if n.Contains(a) {
			return true
		}
	}
	return false
}

func (s *Set) hasIPPort(a netip.Addr, proto uint8, port uint16) bool {
	for _, m := range s.IPPorts {
		if m.Addr == a && m.Proto == proto && m.Port == port {
			return true
		}
	}
	return false
}

type portRange struct{ lo, hi uint16 }

func inRanges(rs []portRange, p uint16) bool {
	for _, r := range rs {
		if p >= r.lo && p <= r.hi {
			return true
		}
	}
	return false
}

func ifaceMatch(pattern, name string, wildcard byte) bool {
	if n := len(pattern); n > 0 && pattern[n-1] == wildcard {
		return strings.HasPrefix(name, pattern[:n-1])
	}
	return pattern == name
}

func (p *Packet) ctStateIn(list []string) bool {
	for _, s := range list {
		s = strings.ToUpper(s)
		switch s {
		case "DNAT":
			if p.CTDNAT {
				return true
			}
		case "SNAT":
			if p.CTSNAT {
				return true
			}
		default:
			if s == strings.ToUpper(p.CTState) {
				return true
			}
		}
	}
	return false
}

func addrTypeOr(t, dflt string) string {
	if t == "" {
		return dflt
	}
	return strings.ToUpper(t)
}

var knownAddrTypes = map[string]bool{"UNSPEC": true, "UNICAST": true, "LOCAL": true, "BROADCAST": true, "ANYCAST": true,
	"MULTICAST": true, "BLACKHOLE": true, "UNREACHABLE": true, "PROHIBIT": true}

var knownCTStates = map[string]bool{"NEW": true, "ESTABLISHED": true, "RELATED": true, "INVALID": true, "UNTRACKED": true,
	"DNAT": true, "SNAT": true}
