package nfsim

import (
	"net/netip"
	"strconv"
	"strings"
)

// tokenize splits on blanks, keeping double-quoted strings (quotes removed) as one token.
// quoted[i] tells whether token i was quoted.
func tokenize(s string) (toks []string, quoted []bool, err error) {
	i := 0
	for i < len(s) {
		if s[i] == ' ' || s[i] == '\t' {
			i++
			continue
		}
		if s[i] == '"' {
			j := strings.IndexByte(s[i+1:], '"')
			if j < 0 {
				return nil, nil, invalidf("unterminated quote")
			}
			toks = append(toks, s[i+1:i+1+j])
			quoted = append(quoted, true)
			i += j + 2
			continue
		}
		j := i
		for j < len(s) && s[j] != ' ' && s[j] != '\t' {
			j++
		}
		toks = append(toks, s[i:j])
		quoted = append(quoted, false)
		i = j
	}
	return toks, quoted, nil
}

func parseU32(s string) (uint32, error) {
	v, err := strconv.ParseUint(s, 0, 32)
	if err != nil {
		return 0, gapf("bad 32-bit number %q", s)
	}
	return uint32(v), nil
}

func parseValueMask(s string) (val, mask uint32, err error) {
	mask = 0xffffffff
	v := s
	if i := strings.IndexByte(s, '/'); i >= 0 {
		v = s[:i]
		if mask, err = parseU32(s[i+1:]); err != nil {
			return
		}
	}
	val, err = parseU32(v)
	return
}

func parseProto(s string) (uint8, error) {
	if n, err := strconv.ParseUint(s, 10, 8); err == nil {
		return uint8(n), nil
	}
	if n, ok := protoNames[strings.ToLower(s)]; ok {
		return n, nil
	}
	return 0, gapf("unknown protocol %q", s)
}

func parsePort(s string) (uint16, error) {
	n, err := strconv.ParseUint(s, 10, 16)
	if err != nil {
		return 0, invalidf("bad port %q", s)
	}
	return uint16(n), nil
}

func parseCIDR(s string, ipv int) (netip.Prefix, error) {
	var p netip.Prefix
	var err error
	if strings.Contains(s, "/") {
		p, err = netip.ParsePrefix(s)
	} else {
		var a netip.Addr
		a, err = netip.ParseAddr(s)
		if err == nil {
			p = netip.PrefixFrom(a, a.BitLen())
		}
	}
	if err != nil {
		return p, invalidf("bad address/CIDR %q", s)
	}
	if p.Addr().Is6() != (ipv == 6) {
		return p, invalidf("IPv%d table given address %q of the other family", ipv, s)
	}
	// The kernel masks host bits off.
	return p.Masked(), nil
}

type iptParser struct {
	rs     *Ruleset
	toks   []string
	pos    int
	neg    bool
	loaded map[string]bool
	// -p as seen so far
	haveProto bool
	proto     uint8
	protoNeg  bool
	r         *rule
	haveJump  bool
}

func (p *iptParser) next() (string, error) {
	if p.pos >= len(p.toks) {
		return "", invalidf("option %q needs an argument", p.toks[len(p.toks)-1])
	}
	t := p.toks[p.pos]
	p.pos++
	return t, nil
}

func (p *iptParser) peek() string {
	if p.pos < len(p.toks) {
		return p.toks[p.pos]
	}
	return ""
}

func (p *iptParser) takeNeg() bool { n := p.neg; p.neg = false; return n }

func (p *iptParser) cond(f func(st *state) (bool, error)) {
	p.r.items = append(p.r.items, item{cond: f})
}

func (p *iptParser) simple(neg bool, f func(pk *Packet) bool) {
	p.cond(func(st *state) (bool, error) { return f(&st.pkt) != neg, nil })
}

func (p *iptParser) need(module, opt string) error {
	if !p.loaded[module] {
		return invalidf("option %s used without -m %s", opt, module)
	}
	return nil
}

// needPositiveProto: the match extension only loads for the listed protocols given by a
// non-inverted -p (x_tables checks match->proto against the rule's protocol).
func (p *iptParser) needPositiveProto(what string, protos ...uint8) error {
	if !p.haveProto || p.protoNeg {
		return invalidf("%s needs a (non-inverted) -p", what)
	}
	for _, x := range protos {
		if x == p.proto {
			return nil
		}
	}
	return invalidf("%s is not valid with -p %d", what, p.proto)
}

func parseIptablesLine(rs *Ruleset, chainName, line string) (*rule, error) {
	toks, _, err := tokenize(line)
	if err != nil {
		return nil, err
	}
	if len(toks) < 2 || toks[0] != "-A" {
		return nil, gapf("not an append line")
	}
	if toks[1] != chainName {
		return nil, gapf("line is for chain %q, expected %q", toks[1], chainName)
	}
	p := &iptParser{rs: rs, toks: toks, pos: 2, loaded: map[string]bool{}, r: &rule{text: line}}
	for p.pos < len(p.toks) {
		t := p.toks[p.pos]
		p.pos++
		if t == "!" {
			if p.neg {
				return nil, invalidf("double negation")
			}
			p.neg = true
			continue
		}
		if p.haveJump {
			return nil, gapf("unexpected token %q after the target's options", t)
		}
		if err := p.option(t); err != nil {
			return nil, err
		}
	}
	if p.neg {
		return nil, invalidf("dangling '!'")
	}
	return p.r, nil
}

func (p *iptParser) option(t string) error {
	switch t {
	case "-m", "--match":
		if p.neg {
			return invalidf("'!' before -m")
		}
		m, err := p.next()
		if err != nil {
			return err
		}
		switch m {
		case "comment", "mark", "set", "conntrack", "addrtype", "limit", "connlimit":
		case "multiport":
			if err := p.needPositiveProto("-m multiport", 6, 17, 136, 132, 33); err != nil {
				return err
			}
		case "icmp":
			if p.rs.IPVersion != 4 {
				return invalidf("-m icmp in an IPv6 table")
			}
			if err := p.needPositiveProto("-m icmp", 1); err != nil {
				return err
			}
		case "icmp6":
			if p.rs.IPVersion != 6 {
				return invalidf("-m icmp6 in an IPv4 table")
			}
			if err := p.needPositiveProto("-m icmp6", 58); err != nil {
				return err
			}
		case "tcp":
			if err := p.needPositiveProto("-m tcp", 6); err != nil {
				return err
			}
		case "udp":
			if err := p.needPositiveProto("-m udp", 17); err != nil {
				return err
			}
		case "rpfilter", "ipvs":
		default:
			return gapf("unknown match module %q", m)
		}
		p.loaded[m] = true
		return nil

	case "--comment":
		if err := p.need("comment", t); err != nil {
			return err
		}
		_, err := p.next()
		return err

	case "-p", "--protocol":
		if p.haveProto {
			return invalidf("multiple -p flags not allowed")
		}
		v, err := p.next()
		if err != nil {
			return err
		}
		n, err := parseProto(v)
		if err != nil {
			return err
		}
		neg := p.takeNeg()
		p.haveProto, p.proto, p.protoNeg = true, n, neg
		p.simple(neg, func(pk *Packet) bool { return pk.Proto == n })
		return nil

	case "--source", "-s", "--destination", "-d":
		v, err := p.next()
		if err != nil {
			return err
		}
		pfx, err := parseCIDR(v, p.rs.IPVersion)
		if err != nil {
			return err
		}
		src := t == "--source" || t == "-s"
		p.simple(p.takeNeg(), func(pk *Packet) bool {
			if src {
				return pfx.Contains(pk.Src)
			}
			return pfx.Contains(pk.Dst)
		})
		return nil

	case "--in-interface", "-i", "--out-interface", "-o":
		v, err := p.next()
		if err != nil {
			return err
		}
		in := t == "--in-interface" || t == "-i"
		p.simple(p.takeNeg(), func(pk *Packet) bool {
			if in {
				return ifaceMatch(v, pk.InIf, '+')
			}
			return ifaceMatch(v, pk.OutIf, '+')
		})
		return nil

	case "--mark":
		if err := p.need("mark", t); err != nil {
			return err
		}
		v, err := p.next()
		if err != nil {
			return err
		}
		val, mask, err := parseValueMask(v)
		if err != nil {
			return err
		}
		p.simple(p.takeNeg(), func(pk *Packet) bool { return pk.Mark&mask == val })
		return nil

	case "--match-set":
		if err := p.need("set", t); err != nil {
			return err
		}
		name, err := p.next()
		if err != nil {
			return err
		}
		flags, err := p.next()
		if err != nil {
			return err
		}
		neg := p.takeNeg()
		// xt_set / ip_set_test(): a match that supplies FEWER dimensions than the set type
		// needs never matches (opt->dim < set->type->dimension => 0, then the inversion flag is
		// applied); extra dimensions are ignored by the set type (hash:net only reads the first).
		var dims int
		var src bool
		switch flags {
		case "src", "dst":
			dims, src = 1, flags == "src"
		case "src,src", "dst,dst":
			dims, src = 2, flags == "src,src"
		}
		if dims != 0 {
			p.r.setRefs = append(p.r.setRefs, setRef{name, dims})
			p.cond(func(st *state) (bool, error) {
				s, err := st.setLookup(name)
				if err != nil {
					return false, err
				}
				a := st.pkt.Dst
				if src {
					a = st.pkt.Src
				}
				var hit bool
				switch {
				case s.IPPortType && dims < 2:
					hit = false
				case s.IPPortType:
					hit = s.hasIPPort(a, st.pkt.Proto, st.pkt.l4(src))
				default:
					hit = s.hasAddr(a)
				}
				return hit != neg, nil
			})
			return nil
		}
		return gapf("unsupported --match-set flags %q", flags)

	case "--source-ports", "--sports", "--destination-ports", "--dports":
		if err := p.need("multiport", t); err != nil {
			return err
		}
		v, err := p.next()
		if err != nil {
			return err
		}
		var ranges []portRange
		slots := 0
		for _, f := range strings.Split(v, ",") {
			lo, hi := f, f
			if i := strings.IndexByte(f, ':'); i >= 0 {
				lo, hi = f[:i], f[i+1:]
				slots += 2
			} else {
				slots++
			}
			l, err := parsePort(lo)
			if err != nil {
				return err
			}
			h, err := parsePort(hi)
			if err != nil {
				return err
			}
			if l > h {
				return invalidf("multiport range %q is reversed", f)
			}
			ranges = append(ranges, portRange{l, h})
		}
		if slots > 15 {
			return invalidf("multiport: too many ports specified (%d slots, max 15)", slots)
		}
		src := strings.HasPrefix(t, "--s")
		p.simple(p.takeNeg(), func(pk *Packet) bool { return inRanges(ranges, pk.l4(src)) })
		return nil

	case "--dport", "--sport":
		if err := p.needPositiveProto(t, 6, 17, 136, 132, 33); err != nil {
			return err
		}
		v, err := p.next()
		if err != nil {
			return err
		}
		lo, hi := v, v
		if i := strings.IndexByte(v, ':'); i >= 0 {
			lo, hi = v[:i], v[i+1:]
		}
		l, err := parsePort(lo)
		if err != nil {
			return err
		}
		h, err := parsePort(hi)
		if err != nil {
			return err
		}
		src := t == "--sport"
		p.simple(p.takeNeg(), func(pk *Packet) bool { x := pk.l4(src); return x >= l && x <= h })
		return nil

	case "--icmp-type", "--icmpv6-type":
		mod := "icmp"
		if t == "--icmpv6-type" {
			mod = "icmp6"
		}
		if err := p.need(mod, t); err != nil {
			return err
		}
		v, err := p.next()
		if err != nil {
			return err
		}
		typS, codeS, hasCode := strings.Cut(v, "/")
		typ, err := strconv.ParseUint(typS, 10, 8)
		if err != nil {
			return gapf("non-numeric ICMP type %q", v)
		}
		code := uint64(0)
		if hasCode {
			if code, err = strconv.ParseUint(codeS, 10, 8); err != nil {
				return gapf("non-numeric ICMP code %q", v)
			}
		}
		// The protocol was already required to be ICMP/ICMPv6 by -p.  xt_icmp (IPv4 only)
		// treats type 255 as "any type".
		anyType := mod == "icmp" && typ == 255
		p.simple(p.takeNeg(), func(pk *Packet) bool {
			return anyType || (pk.ICMPType == uint8(typ) && (!hasCode || pk.ICMPCode == uint8(code)))
		})
		return nil

	case "--ctstate":
		if err := p.need("conntrack", t); err != nil {
			return err
		}
		v, err := p.next()
		if err != nil {
			return err
		}
		list := strings.Split(v, ",")
		for _, s := range list {
			if !knownCTStates[s] {
				return gapf("unknown ctstate %q", s)
			}
		}
		p.simple(p.takeNeg(), func(pk *Packet) bool { return pk.ctStateIn(list) })
		return nil

	case "--src-type", "--dst-type":
		if err := p.need("addrtype", t); err != nil {
			return err
		}
		v, err := p.next()
		if err != nil {
			return err
		}
		if !knownAddrTypes[v] {
			return gapf("unknown address type %q", v)
		}
		neg := p.takeNeg()
		if t == "--dst-type" {
			p.simple(neg, func(pk *Packet) bool { return addrTypeOr(pk.DstAddrType, "UNICAST") == v })
			return nil
		}
		limit := false
		if p.peek() == "--limit-iface-out" {
			p.pos++
			limit = true
		}
		p.simple(neg, func(pk *Packet) bool {
			at := addrTypeOr(pk.SrcAddrType, "UNICAST")
			if limit {
				at = addrTypeOr(pk.SrcAddrTypeOutIf, at)
			}
			return at == v
		})
		return nil

	case "--invert":
		// "-m rpfilter --invert --validmark": true when the reverse path check FAILS.
		if err := p.need("rpfilter", t); err != nil {
			return err
		}
		if p.peek() == "--validmark" {
			p.pos++
		}
		p.simple(p.takeNeg(), func(pk *Packet) bool { return pk.RPFFail })
		return nil

	case "--ipvs":
		if err := p.need("ipvs", t); err != nil {
			return err
		}
		p.simple(p.takeNeg(), func(pk *Packet) bool { return pk.IPVS })
		return nil

	case "--limit":
		if err := p.need("limit", t); err != nil {
			return err
		}
		if _, err := p.next(); err != nil {
			return err
		}
		if p.peek() == "--limit-burst" {
			p.pos += 2
		}
		p.simple(p.takeNeg(), func(pk *Packet) bool { return pk.LimitOK })
		return nil

	case "--tcp-flags":
		if err := p.need("tcp", t); err != nil {
			return err
		}
		mask, err := p.next()
		if err != nil {
			return err
		}
		comp, err := p.next()
		if err != nil {
			return err
		}
		if mask != "FIN,SYN,RST,ACK" || comp != "SYN" {
			return gapf("unsupported --tcp-flags %s %s", mask, comp)
		}
		p.simple(p.takeNeg(), func(pk *Packet) bool { return pk.TCPSyn })
		return nil

	case "--connlimit-above":
		if err := p.need("connlimit", t); err != nil {
			return err
		}
		if _, err := p.next(); err != nil {
			return err
		}
		if p.peek() == "--connlimit-mask" {
			p.pos += 2
		}
		p.simple(p.takeNeg(), func(pk *Packet) bool { return pk.ConnLimitOver })
		return nil

	case "--jump", "-j", "--goto", "-g":
		if p.neg {
			return invalidf("'!' before %s", t)
		}
		tgt, err := p.next()
		if err != nil {
			return err
		}
		p.haveJump = true
		return p.target(t == "--goto" || t == "-g", tgt)
	}
	return gapf("unknown iptables option %q", t)
}

func (p *iptParser) stmt(f func(st *state) (*outcome, error)) {
	p.r.items = append(p.r.items, item{stmt: f})
}

func (p *iptParser) terminal(k outcomeKind) {
	p.stmt(func(*state) (*outcome, error) { return &outcome{kind: k}, nil })
}

// optArgs consumes "--name value" pairs that carry no semantics for the simulation.
func (p *iptParser) optArgs(names ...string) error {
	for p.pos < len(p.toks) {
		found := false
		for _, n := range names {
			if p.toks[p.pos] == n {
				found = true
			}
		}
		if !found {
			return gapf("unknown target option %q", p.toks[p.pos])
		}
		p.pos++
		if _, err := p.next(); err != nil {
			return err
		}
	}
	return nil
}

func (p *iptParser) target(isGoto bool, tgt string) error {
	if isGoto {
		p.stmt(func(*state) (*outcome, error) { return &outcome{kind: oGoto, target: tgt}, nil })
		return nil
	}
	switch tgt {
	case "ACCEPT":
		p.terminal(oAccept)
	case "DROP":
		p.terminal(oDrop)
	case "RETURN":
		p.terminal(oReturn)
	case "REJECT":
		if err := p.optArgs("--reject-with"); err != nil {
			return err
		}
		p.terminal(oReject)
	case "MARK":
		opt, err := p.next()
		if err != nil {
			return err
		}
		v, err := p.next()
		if err != nil {
			return err
		}
		val, mask, err := parseValueMask(v)
		if err != nil {
			return err
		}
		switch opt {
		case "--set-mark":
			p.stmt(func(st *state) (*outcome, error) { st.pkt.Mark = (st.pkt.Mark &^ mask) | val; return nil, nil })
		case "--set-xmark":
			p.stmt(func(st *state) (*outcome, error) { st.pkt.Mark = (st.pkt.Mark &^ mask) ^ val; return nil, nil })
		default:
			return gapf("unknown MARK option %q", opt)
		}
	case "CONNMARK":
		opt, err := p.next()
		if err != nil {
			return err
		}
		switch opt {
		case "--save-mark", "--restore-mark":
			mask := uint32(0xffffffff)
			if p.peek() == "--mask" {
				p.pos++
				v, err := p.next()
				if err != nil {
					return err
				}
				if mask, err = parseU32(v); err != nil {
					return err
				}
			}
			if opt == "--save-mark" {
				p.stmt(func(st *state) (*outcome, error) {
					st.pkt.CTMark = (st.pkt.CTMark &^ mask) ^ (st.pkt.Mark & mask)
					return nil, nil
				})
			} else {
				p.stmt(func(st *state) (*outcome, error) {
					st.pkt.Mark = (st.pkt.Mark &^ mask) ^ (st.pkt.CTMark & mask)
					return nil, nil
				})
			}
		case "--set-mark":
			v, err := p.next()
			if err != nil {
				return err
			}
			val, mask, err := parseValueMask(v)
			if err != nil {
				return err
			}
			p.stmt(func(st *state) (*outcome, error) { st.pkt.CTMark = (st.pkt.CTMark &^ mask) | val; return nil, nil })
		default:
			return gapf("unknown CONNMARK option %q", opt)
		}
	case "LOG":
		prefix := ""
		for p.pos < len(p.toks) {
			o := p.toks[p.pos]
			if o != "--log-prefix" && o != "--log-level" {
				return gapf("unknown LOG option %q", o)
			}
			p.pos++
			v, err := p.next()
			if err != nil {
				return err
			}
			if o == "--log-prefix" {
				prefix = v
			}
		}
		p.stmt(func(st *state) (*outcome, error) { st.res.Logs = append(st.res.Logs, prefix); return nil, nil })
	case "NFLOG":
		prefix := ""
		for p.pos < len(p.toks) {
			o := p.toks[p.pos]
			switch o {
			case "--nflog-group", "--nflog-prefix", "--nflog-size", "--nflog-range":
			default:
				return gapf("unknown NFLOG option %q", o)
			}
			p.pos++
			v, err := p.next()
			if err != nil {
				return err
			}
			if o == "--nflog-prefix" {
				prefix = v
			}
		}
		p.stmt(func(st *state) (*outcome, error) { st.res.NFLogs = append(st.res.NFLogs, prefix); return nil, nil })
	case "NOTRACK":
		p.stmt(func(st *state) (*outcome, error) { st.res.NoTrack = true; return nil, nil })
	case "DSCP":
		opt, err := p.next()
		if err != nil {
			return err
		}
		v, err := p.next()
		if err != nil {
			return err
		}
		n, err2 := strconv.ParseUint(v, 10, 6)
		if opt != "--set-dscp" || err2 != nil {
			return gapf("unsupported DSCP target options %s %s", opt, v)
		}
		p.stmt(func(st *state) (*outcome, error) { st.res.DSCP = int(n); return nil, nil })
	case "DNAT", "SNAT", "MASQUERADE":
		text := tgt
		for p.pos < len(p.toks) {
			o := p.toks[p.pos]
			switch o {
			case "--to-destination", "--to-source", "--to-ports":
				p.pos++
				v, err := p.next()
				if err != nil {
					return err
				}
				text += " " + v
			case "--random-fully":
				p.pos++
			default:
				return gapf("unknown NAT option %q", o)
			}
		}
		p.stmt(func(*state) (*outcome, error) { return &outcome{kind: oNAT, target: text}, nil })
	default:
		if strings.ToUpper(tgt) == tgt {
			return gapf("unknown target %q", tgt)
		}
		p.stmt(func(*state) (*outcome, error) { return &outcome{kind: oJump, target: tgt}, nil })
	}
	if p.pos < len(p.toks) {
		return gapf("unexpected token %q after target %s", p.toks[p.pos], tgt)
	}
	return nil
}
