package nfsim

import (
	"strconv"
	"strings"
)

// nftParser walks the whitespace-separated tokens of one nftables rule expression as Felix
// renders it (nftables.NewNFTRenderer(...).Render(...).Rule).
type nftParser struct {
	rs   *Ruleset
	toks []string
	q    []bool
	pos  int
	r    *rule
	done bool // a terminal verdict statement has been parsed
}

func (p *nftParser) peek() string {
	if p.pos < len(p.toks) {
		return p.toks[p.pos]
	}
	return ""
}

func (p *nftParser) peekAt(n int) string {
	if p.pos+n < len(p.toks) {
		return p.toks[p.pos+n]
	}
	return ""
}

func (p *nftParser) next() (string, error) {
	if p.pos >= len(p.toks) {
		return "", invalidf("unexpected end of rule")
	}
	t := p.toks[p.pos]
	p.pos++
	return t, nil
}

func (p *nftParser) expect(words ...string) error {
	for _, w := range words {
		t, err := p.next()
		if err != nil {
			return err
		}
		if t != w {
			return gapf("expected %q, got %q", w, t)
		}
	}
	return nil
}

// op consumes an optional "!=" / "==" and reports negation.
func (p *nftParser) op() bool {
	switch p.peek() {
	case "!=":
		p.pos++
		return true
	case "==":
		p.pos++
	}
	return false
}

func (p *nftParser) cond(f func(st *state) (bool, error)) {
	p.r.items = append(p.r.items, item{cond: f})
}

func (p *nftParser) simple(neg bool, f func(pk *Packet) bool) {
	p.cond(func(st *state) (bool, error) { return f(&st.pkt) != neg, nil })
}

func (p *nftParser) stmt(f func(st *state) (*outcome, error)) {
	p.r.items = append(p.r.items, item{stmt: f})
}

func (p *nftParser) terminal(k outcomeKind, target string) {
	p.done = true
	p.stmt(func(*state) (*outcome, error) { return &outcome{kind: k, target: target}, nil })
}

func parseNFTRule(rs *Ruleset, text string) (*rule, error) {
	toks, q, err := tokenize(text)
	if err != nil {
		return nil, err
	}
	p := &nftParser{rs: rs, toks: toks, q: q, r: &rule{text: text}}
	if len(toks) == 0 {
		return nil, invalidf("empty nftables rule")
	}
	for p.pos < len(p.toks) {
		if p.done {
			return nil, invalidf("tokens after a terminal verdict statement: %q", p.peek())
		}
		if err := p.clause(); err != nil {
			return nil, err
		}
	}
	return p.r, nil
}

// set parses "{ a, b-c, ... }" (elements may be glued to their commas).
func (p *nftParser) braceList() ([]string, error) {
	if err := p.expect("{"); err != nil {
		return nil, err
	}
	var out []string
	for {
		t, err := p.next()
		if err != nil {
			return nil, err
		}
		if t == "}" {
			break
		}
		for _, f := range strings.Split(t, ",") {
			if f != "" {
				out = append(out, f)
			}
		}
	}
	if len(out) == 0 {
		return nil, invalidf("empty anonymous set")
	}
	return out, nil
}

func parsePortRangeNFT(f string) (portRange, error) {
	lo, hi := f, f
	if i := strings.IndexByte(f, '-'); i >= 0 {
		lo, hi = f[:i], f[i+1:]
	}
	l, err := parsePort(lo)
	if err != nil {
		return portRange{}, err
	}
	h, err := parsePort(hi)
	if err != nil {
		return portRange{}, err
	}
	if l > h {
		return portRange{}, invalidf("range %q is reversed", f)
	}
	return portRange{l, h}, nil
}

func (p *nftParser) family() string {
	if p.rs.IPVersion == 6 {
		return "ip6"
	}
	return "ip"
}

func (p *nftParser) clause() error {
	t, _ := p.next()
	switch t {
	case "counter":
		return nil
	case "continue":
		return nil

	case "meta":
		what, err := p.next()
		if err != nil {
			return err
		}
		switch what {
		case "mark":
			if p.peek() == "set" {
				p.pos++
				return p.markSet(false)
			}
			// meta mark & M == V | != V
			if err := p.expect("&"); err != nil {
				return err
			}
			ms, err := p.next()
			if err != nil {
				return err
			}
			mask, err := parseU32(ms)
			if err != nil {
				return err
			}
			o, err := p.next()
			if err != nil {
				return err
			}
			if o != "==" && o != "!=" {
				return gapf("unsupported mark comparison %q", o)
			}
			vs, err := p.next()
			if err != nil {
				return err
			}
			val, err := parseU32(vs)
			if err != nil {
				return err
			}
			p.simple(o == "!=", func(pk *Packet) bool { return pk.Mark&mask == val })
			return nil
		case "l4proto":
			neg := p.op()
			if p.peek() == "{" {
				els, err := p.braceList()
				if err != nil {
					return err
				}
				var ns []uint8
				for _, e := range els {
					n, err := parseProto(e)
					if err != nil {
						return err
					}
					ns = append(ns, n)
				}
				p.simple(neg, func(pk *Packet) bool {
					for _, n := range ns {
						if pk.Proto == n {
							return true
						}
					}
					return false
				})
				return nil
			}
			v, err := p.next()
			if err != nil {
				return err
			}
			n, err := parseProto(v)
			if err != nil {
				return err
			}
			p.simple(neg, func(pk *Packet) bool { return pk.Proto == n })
			return nil
		}
		return gapf("unknown meta key %q", what)

	case "iifname", "oifname":
		in := t == "iifname"
		if p.peek() == "vmap" {
			p.pos++
			m, err := p.next()
			if err != nil {
				return err
			}
			if !strings.HasPrefix(m, "@") {
				return gapf("vmap without a named map: %q", m)
			}
			name := m[1:]
			lookup := func(st *state) (string, bool, error) {
				mm, ok := st.rs.Maps[name]
				if !ok {
					return "", false, invalidf("verdict map %q does not exist", name)
				}
				key := st.pkt.OutIf
				if in {
					key = st.pkt.InIf
				}
				v, hit := mm[key] // "ifname : verdict" maps compare the whole name (no wildcards)
				return v, hit, nil
			}
			// No such element: the expression breaks and evaluation moves to the next rule;
			// modelled as a condition (hit?) followed by the dispatch statement.
			p.cond(func(st *state) (bool, error) {
				_, hit, err := lookup(st)
				return hit, err
			})
			p.stmt(func(st *state) (*outcome, error) {
				v, _, err := lookup(st)
				if err != nil {
					return nil, err
				}
				return parseMapVerdict(v)
			})
			p.done = true // the vmap lookup is the rule's verdict; nothing may follow it
			return nil
		}
		neg := p.op()
		v, err := p.next()
		if err != nil {
			return err
		}
		p.simple(neg, func(pk *Packet) bool {
			if in {
				return ifaceMatch(v, pk.InIf, '*')
			}
			return ifaceMatch(v, pk.OutIf, '*')
		})
		return nil

	case "fib":
		what, err := p.next()
		if err != nil {
			return err
		}
		if what == "saddr" && p.peek() == "." && p.peekAt(1) == "mark" {
			if err := p.expect(".", "mark", ".", "iif", "oif", "0"); err != nil {
				return err
			}
			p.simple(false, func(pk *Packet) bool { return pk.RPFFail })
			return nil
		}
		limit := false
		if what == "saddr" && p.peek() == "." {
			if err := p.expect(".", "oif"); err != nil {
				return err
			}
			limit = true
		}
		if what != "saddr" && what != "daddr" {
			return gapf("unknown fib selector %q", what)
		}
		if err := p.expect("type"); err != nil {
			return err
		}
		neg := p.op()
		v, err := p.next()
		if err != nil {
			return err
		}
		at := strings.ToUpper(v)
		if !knownAddrTypes[at] {
			return gapf("unknown address type %q", v)
		}
		p.simple(neg, func(pk *Packet) bool {
			if what == "daddr" {
				return addrTypeOr(pk.DstAddrType, "UNICAST") == at
			}
			x := addrTypeOr(pk.SrcAddrType, "UNICAST")
			if limit {
				x = addrTypeOr(pk.SrcAddrTypeOutIf, x)
			}
			return x == at
		})
		return nil

	case "ct":
		what, err := p.next()
		if err != nil {
			return err
		}
		switch what {
		case "state", "status":
			neg := p.op()
			v, err := p.next()
			if err != nil {
				return err
			}
			list := strings.Split(strings.ToUpper(v), ",")
			for _, s := range list {
				if !knownCTStates[s] {
					return gapf("unknown ct %s %q", what, s)
				}
				if what == "status" && s != "DNAT" && s != "SNAT" {
					return gapf("unsupported ct status %q", s)
				}
				if what == "state" && (s == "DNAT" || s == "SNAT") {
					return invalidf("ct state has no %q", s)
				}
			}
			p.simple(neg, func(pk *Packet) bool { return pk.ctStateIn(list) })
			return nil
		case "mark":
			if err := p.expect("set"); err != nil {
				return err
			}
			return p.markSet(true)
		case "count":
			if err := p.expect("over"); err != nil {
				return err
			}
			if _, err := p.next(); err != nil {
				return err
			}
			p.simple(false, func(pk *Packet) bool { return pk.ConnLimitOver })
			return nil
		}
		return gapf("unknown ct key %q", what)

	case "ip", "ip6":
		if t != p.family() {
			return invalidf("%q expression in an IPv%d table", t, p.rs.IPVersion)
		}
		what, err := p.next()
		if err != nil {
			return err
		}
		switch what {
		case "dscp":
			if err := p.expect("set"); err != nil {
				return err
			}
			v, err := p.next()
			if err != nil {
				return err
			}
			n, err2 := strconv.ParseUint(v, 10, 6)
			if err2 != nil {
				return gapf("bad dscp %q", v)
			}
			p.stmt(func(st *state) (*outcome, error) { st.res.DSCP = int(n); return nil, nil })
			return nil
		case "saddr", "daddr":
			src := what == "saddr"
			if p.peek() == "." {
				// <addr> . meta l4proto . th sport|dport [!=] @set
				if err := p.expect(".", "meta", "l4proto", ".", "th"); err != nil {
					return err
				}
				pd, err := p.next()
				if err != nil {
					return err
				}
				if (src && pd != "sport") || (!src && pd != "dport") {
					return gapf("address/port direction mix in concatenation: %s with %s", what, pd)
				}
				neg := p.op()
				s, err := p.next()
				if err != nil {
					return err
				}
				if !strings.HasPrefix(s, "@") {
					return gapf("concatenation compared with %q, expected a named set", s)
				}
				name := s[1:]
				p.r.setRefs = append(p.r.setRefs, setRef{name, 2})
				p.cond(func(st *state) (bool, error) {
					set, err := st.setLookup(name)
					if err != nil {
						return false, err
					}
					if !set.IPPortType {
						return false, invalidf("concatenation looked up in net set %q", name)
					}
					a := st.pkt.Dst
					if src {
						a = st.pkt.Src
					}
					return set.hasIPPort(a, st.pkt.Proto, st.pkt.l4(src)) != neg, nil
				})
				return nil
			}
			neg := p.op()
			v, err := p.next()
			if err != nil {
				return err
			}
			if strings.HasPrefix(v, "@") {
				name := v[1:]
				p.r.setRefs = append(p.r.setRefs, setRef{name, 1})
				p.cond(func(st *state) (bool, error) {
					set, err := st.setLookup(name)
					if err != nil {
						return false, err
					}
					if set.IPPortType {
						return false, invalidf("plain address looked up in ip,port set %q", name)
					}
					a := st.pkt.Dst
					if src {
						a = st.pkt.Src
					}
					return set.hasAddr(a) != neg, nil
				})
				return nil
			}
			pfx, err := parseCIDR(v, p.rs.IPVersion)
			if err != nil {
				return err
			}
			p.simple(neg, func(pk *Packet) bool {
				if src {
					return pfx.Contains(pk.Src)
				}
				return pfx.Contains(pk.Dst)
			})
			return nil
		}
		return gapf("unknown %s field %q", t, what)

	case "tcp", "udp", "sctp", "udplite", "dccp":
		proto := protoNames[t]
		what, err := p.next()
		if err != nil {
			return err
		}
		if what != "sport" && what != "dport" {
			return gapf("unknown %s field %q", t, what)
		}
		src := what == "sport"
		neg := p.op()
		var ranges []portRange
		if p.peek() == "{" {
			els, err := p.braceList()
			if err != nil {
				return err
			}
			for _, e := range els {
				r, err := parsePortRangeNFT(e)
				if err != nil {
					return err
				}
				ranges = append(ranges, r)
			}
		} else {
			v, err := p.next()
			if err != nil {
				return err
			}
			r, err := parsePortRangeNFT(v)
			if err != nil {
				return err
			}
			ranges = append(ranges, r)
		}
		// "tcp dport x" carries an implicit "meta l4proto tcp" dependency, also when negated.
		p.cond(func(st *state) (bool, error) {
			if st.pkt.Proto != proto {
				return false, nil
			}
			return inRanges(ranges, st.pkt.l4(src)) != neg, nil
		})
		return nil

	case "icmp", "icmpv6":
		if (t == "icmp") != (p.rs.IPVersion == 4) {
			return gapf("%s match in an IPv%d table", t, p.rs.IPVersion)
		}
		proto := uint8(1)
		if t == "icmpv6" {
			proto = 58
		}
		what, err := p.next()
		if err != nil {
			return err
		}
		if what != "type" && what != "code" {
			return gapf("unknown %s field %q", t, what)
		}
		neg := p.op()
		v, err := p.next()
		if err != nil {
			return err
		}
		n, err2 := strconv.ParseUint(v, 10, 8)
		if err2 != nil {
			return gapf("non-numeric %s %s %q", t, what, v)
		}
		if nx := p.peek(); nx == "code" || nx == "type" {
			// nft 1.0.6: "icmp type 8 code 0" -> "Error: No symbol type information" at "code";
			// each header field needs its own "icmp" keyword ("icmp type 8 icmp code 0").
			return invalidf("nft syntax error: bare %q after \"%s %s %s\" (each field needs its own %q keyword)", nx, t, what, v, t)
		}
		isType := what == "type"
		// Implicit dependency on the ICMP protocol, also for "!=".
		p.cond(func(st *state) (bool, error) {
			if st.pkt.Proto != proto {
				return false, nil
			}
			x := st.pkt.ICMPCode
			if isType {
				x = st.pkt.ICMPType
			}
			return (x == uint8(n)) != neg, nil
		})
		return nil

	case "limit":
		if err := p.expect("rate"); err != nil {
			return err
		}
		over := false
		if p.peek() == "over" {
			p.pos++
			over = true
		}
		if _, err := p.next(); err != nil { // the rate, e.g. 10/second
			return err
		}
		if p.peek() == "burst" {
			p.pos++
			if _, err := p.next(); err != nil {
				return err
			}
			if err := p.expect("packets"); err != nil {
				return err
			}
		}
		p.simple(over, func(pk *Packet) bool { return pk.LimitOK })
		return nil

	case "arp":
		what, err := p.next()
		if err != nil {
			return err
		}
		switch what {
		case "operation":
			neg := p.op()
			v, err := p.next()
			if err != nil {
				return err
			}
			p.simple(neg, func(pk *Packet) bool { return pk.ARPOp == v })
			return nil
		case "saddr":
			if err := p.expect("ip"); err != nil {
				return err
			}
			neg := p.op()
			v, err := p.next()
			if err != nil {
				return err
			}
			p.simple(neg, func(pk *Packet) bool { return pk.ARPSrcIP == v })
			return nil
		}
		return gapf("unknown arp field %q", what)

	case "log":
		prefix, group := "", false
		for {
			switch p.peek() {
			case "prefix":
				p.pos++
				if p.pos < len(p.toks) && !p.q[p.pos] {
					return invalidf("log prefix must be a quoted string, got %q", p.peek())
				}
				v, err := p.next()
				if err != nil {
					return err
				}
				prefix = v
				continue
			case "level", "snaplen":
				p.pos++
				if _, err := p.next(); err != nil {
					return err
				}
				continue
			case "group":
				p.pos++
				if _, err := p.next(); err != nil {
					return err
				}
				group = true
				continue
			}
			break
		}
		p.stmt(func(st *state) (*outcome, error) {
			if group {
				st.res.NFLogs = append(st.res.NFLogs, prefix)
			} else {
				st.res.Logs = append(st.res.Logs, prefix)
			}
			return nil, nil
		})
		return nil

	case "accept":
		p.terminal(oAccept, "")
		return nil
	case "drop":
		p.terminal(oDrop, "")
		return nil
	case "return":
		p.terminal(oReturn, "")
		return nil
	case "reject":
		if p.peek() == "with" {
			p.pos++
			if p.peek() == "tcp" && p.peekAt(1) == "reset" {
				p.pos += 2
			} else {
				return gapf("unsupported reject reason %q", p.peek())
			}
		}
		p.terminal(oReject, "")
		return nil
	case "jump", "goto":
		c, err := p.next()
		if err != nil {
			return err
		}
		if t == "jump" {
			p.terminal(oJump, c)
		} else {
			p.terminal(oGoto, c)
		}
		return nil
	case "notrack":
		p.stmt(func(st *state) (*outcome, error) { st.res.NoTrack = true; return nil, nil })
		return nil
	case "flow":
		a, err := p.next()
		if err != nil {
			return err
		}
		if a != "offload" && a != "add" {
			return gapf("unknown flow statement %q", a)
		}
		if _, err := p.next(); err != nil {
			return err
		}
		p.stmt(func(st *state) (*outcome, error) { st.res.Offload = true; return nil, nil })
		return nil
	case "dnat", "snat":
		if err := p.expect("to"); err != nil {
			return err
		}
		v, err := p.next()
		if err != nil {
			return err
		}
		if p.peek() == "fully-random" {
			p.pos++
		}
		p.terminal(oNAT, t+" to "+v)
		return nil
	case "masquerade":
		text := t
		if p.peek() == "to" {
			p.pos++
			v, err := p.next()
			if err != nil {
				return err
			}
			text += " to " + v
		}
		if p.peek() == "fully-random" {
			p.pos++
		}
		p.terminal(oNAT, text)
		return nil
	}
	return gapf("unknown nftables token %q", t)
}

// markSet parses the right-hand side of "meta mark set" / "ct mark set".
func (p *nftParser) markSet(ct bool) error {
	// Source operand: "mark", "ct mark", or an immediate.
	srcCT, imm, isImm := false, uint32(0), false
	switch p.peek() {
	case "mark":
		p.pos++
	case "ct":
		p.pos++
		if err := p.expect("mark"); err != nil {
			return err
		}
		srcCT = true
	default:
		v, err := p.next()
		if err != nil {
			return err
		}
		if imm, err = parseU32(v); err != nil {
			return err
		}
		isImm = true
	}
	and, xor, or := uint32(0xffffffff), uint32(0), uint32(0)
	if !isImm {
		switch p.peek() {
		case "&", "and":
			p.pos++
			v, err := p.next()
			if err != nil {
				return err
			}
			if and, err = parseU32(v); err != nil {
				return err
			}
			if p.peek() == "^" || p.peek() == "xor" {
				p.pos++
				v, err := p.next()
				if err != nil {
					return err
				}
				if xor, err = parseU32(v); err != nil {
					return err
				}
			}
		case "or", "|":
			p.pos++
			v, err := p.next()
			if err != nil {
				return err
			}
			if or, err = parseU32(v); err != nil {
				return err
			}
		}
	}
	p.stmt(func(st *state) (*outcome, error) {
		var v uint32
		switch {
		case isImm:
			v = imm
		case srcCT:
			v = st.pkt.CTMark
		default:
			v = st.pkt.Mark
		}
		if !isImm {
			v = ((v & and) ^ xor) | or
		}
		if ct {
			st.pkt.CTMark = v
		} else {
			st.pkt.Mark = v
		}
		return nil, nil
	})
	return nil
}

func parseMapVerdict(v string) (*outcome, error) {
	f := strings.Fields(v)
	switch {
	case len(f) == 2 && f[0] == "goto":
		return &outcome{kind: oGoto, target: f[1]}, nil
	case len(f) == 2 && f[0] == "jump":
		return &outcome{kind: oJump, target: f[1]}, nil
	case len(f) == 1 && f[0] == "return":
		return &outcome{kind: oReturn}, nil
	case len(f) == 1 && f[0] == "accept":
		return &outcome{kind: oAccept}, nil
	case len(f) == 1 && f[0] == "drop":
		return &outcome{kind: oDrop}, nil
	case len(f) == 1 && f[0] == "continue":
		return &outcome{kind: oContinue}, nil
	}
	return nil, gapf("unknown verdict map element %q", v)
}
