package nfsim

import (
	"fmt"
	"net/netip"
	"strings"
)

// SelfTest runs hand-written rule text with known outcomes through both front ends and
// returns a list of failures (empty = pass).  It is run through a harness unit
// (TestVerifC08NfsimSelfTest) because kit packages have no test binary of their own.
func SelfTest() []string {
	var fails []string
	failf := func(f string, a ...any) { fails = append(fails, fmt.Sprintf(f, a...)) }
	a := netip.MustParseAddr
	pfx := netip.MustParsePrefix

	type tc struct {
		name   string
		kind   Kind
		ipv    int
		chains map[string][]string
		order  []string
		sets   map[string]*Set
		maps   map[string]map[string]string
		stubs  []string
		unload map[string]string
		entry  string
		pkt    Packet
		// expectations
		verdict Verdict
		mark    uint32
		reached []string
		not     []string
		logs    int
		errKind string // "", "gap", "invalid"
	}
	tcp := func(src, dst string, sp, dp uint16) Packet {
		return Packet{IPVersion: 4, Proto: 6, Src: a(src), Dst: a(dst), SrcPort: sp, DstPort: dp, InIf: "cali1", OutIf: "eth0", CTState: "NEW", LimitOK: true}
	}
	withMark := func(p Packet, m uint32) Packet { p.Mark = m; return p }
	withIn := func(p Packet, i string) Packet { p.InIf = i; return p }
	icmp := func(t, c uint8) Packet {
		return Packet{IPVersion: 4, Proto: 1, Src: a("10.0.0.1"), Dst: a("10.0.0.2"), ICMPType: t, ICMPCode: c}
	}
	sets := map[string]*Set{
		"cali40s1":   {Nets: []netip.Prefix{pfx("10.0.0.0/30"), pfx("10.0.0.9/32")}},
		"cali40np":   {IPPortType: true, IPPorts: []IPPort{{a("10.0.0.2"), 6, 80}, {a("10.0.0.2"), 17, 53}}},
		"cali40np-x": {IPPortType: true, IPPorts: []IPPort{{a("10.0.0.2"), 6, 80}}},
	}
	cases := []tc{
		// ---------- iptables ----------
		{name: "ipt first match wins, mark arithmetic", kind: Iptables, ipv: 4, entry: "c",
			chains: map[string][]string{"c": {
				`-A c -m comment --comment "cali:x" -p tcp -m multiport --destination-ports 80,100:102 --jump MARK --set-mark 0x20/0x20`,
				`-A c -m mark --mark 0x20/0x20 --jump RETURN`,
				`-A c --jump DROP`}},
			pkt: withMark(tcp("10.0.0.1", "10.0.0.2", 1, 101), 0x1), verdict: VerdictReturn, mark: 0x21},
		{name: "ipt multiport miss falls to DROP", kind: Iptables, ipv: 4, entry: "c",
			chains: map[string][]string{"c": {
				`-A c -p tcp -m multiport --destination-ports 80,100:102 --jump MARK --set-mark 0x20/0x20`,
				`-A c -m mark --mark 0x20/0x20 --jump RETURN`,
				`-A c --jump DROP`}},
			pkt: tcp("10.0.0.1", "10.0.0.2", 1, 103), verdict: VerdictDrop},
		{name: "ipt negated multiport", kind: Iptables, ipv: 4, entry: "c",
			chains: map[string][]string{"c": {`-A c -p tcp -m multiport ! --source-ports 5:7 --jump ACCEPT`}},
			pkt:    tcp("10.0.0.1", "10.0.0.2", 8, 1), verdict: VerdictAccept},
		{name: "ipt clear mark and masked set", kind: Iptables, ipv: 4, entry: "c",
			chains: map[string][]string{"c": {
				`-A c --jump MARK --set-mark 0x40/0x60`,
				`-A c -m mark --mark 0/0x20 --jump MARK --set-mark 0/0x40`}},
			pkt: withMark(tcp("10.0.0.1", "10.0.0.2", 1, 1), 0xff), verdict: VerdictReturn, mark: 0x9f},
		{name: "ipt jump returns, goto does not", kind: Iptables, ipv: 4, entry: "a",
			order: []string{"a", "b", "c2"},
			chains: map[string][]string{
				"a":  {`-A a --jump b`, `-A a --jump MARK --set-mark 0x1/0x1`},
				"b":  {`-A b --goto c2`, `-A b --jump MARK --set-mark 0x2/0x2`},
				"c2": {`-A c2 --jump MARK --set-mark 0x4/0x4`}},
			pkt: tcp("10.0.0.1", "10.0.0.2", 1, 1), verdict: VerdictReturn, mark: 0x5, reached: []string{"a", "b", "c2"}},
		{name: "ipt sets and negation", kind: Iptables, ipv: 4, entry: "c", sets: sets,
			chains: map[string][]string{"c": {
				`-A c -p tcp -m set --match-set cali40s1 src ! --source 10.0.0.1/32 -m set ! --match-set cali40np dst,dst --jump DROP`,
				`-A c -m set --match-set cali40np dst,dst --jump ACCEPT`}},
			pkt: tcp("10.0.0.2", "10.0.0.2", 1, 80), verdict: VerdictAccept},
		{name: "ipt set src hit, dst,dst miss -> DROP", kind: Iptables, ipv: 4, entry: "c", sets: sets,
			chains: map[string][]string{"c": {
				`-A c -p tcp -m set --match-set cali40s1 src ! --source 10.0.0.1/32 -m set ! --match-set cali40np dst,dst --jump DROP`}},
			pkt: tcp("10.0.0.2", "10.0.0.2", 1, 81), verdict: VerdictDrop},
		{name: "ipt interface wildcard", kind: Iptables, ipv: 4, entry: "c", stubs: []string{"ep"},
			chains: map[string][]string{"c": {`-A c --in-interface calia+ --goto ep`, `-A c --jump DROP`}},
			pkt:    withIn(tcp("10.0.0.1", "10.0.0.2", 1, 1), "caliab"), verdict: VerdictReturn, reached: []string{"ep"}},
		{name: "ipt interface exact is not a prefix", kind: Iptables, ipv: 4, entry: "c", stubs: []string{"ep"},
			chains: map[string][]string{"c": {`-A c --in-interface calia --goto ep`, `-A c --jump DROP`}},
			pkt:    withIn(tcp("10.0.0.1", "10.0.0.2", 1, 1), "caliab"), verdict: VerdictDrop, not: []string{"ep"}},
		{name: "ipt icmp type/code negated", kind: Iptables, ipv: 4, entry: "c",
			chains: map[string][]string{"c": {`-A c -p icmp -m icmp ! --icmp-type 8/0 --jump DROP`}},
			pkt:    icmp(8, 1), verdict: VerdictDrop},
		{name: "ipt LOG then REJECT", kind: Iptables, ipv: 4, entry: "c",
			chains: map[string][]string{"c": {`-A c --jump LOG --log-prefix "calico-packet: " --log-level 5`, `-A c --jump REJECT`}},
			pkt:    tcp("10.0.0.1", "10.0.0.2", 1, 1), verdict: VerdictReject, logs: 1},
		{name: "ipt two -p flags rejected", kind: Iptables, ipv: 4, entry: "c", errKind: "invalid",
			chains: map[string][]string{"c": {`-A c -p tcp ! -p udp --jump DROP`}}, pkt: tcp("10.0.0.1", "10.0.0.2", 1, 1)},
		{name: "ipt multiport without -p rejected", kind: Iptables, ipv: 4, entry: "c", errKind: "invalid",
			chains: map[string][]string{"c": {`-A c -m multiport --destination-ports 80 --jump DROP`}}, pkt: tcp("10.0.0.1", "10.0.0.2", 1, 1)},
		{name: "ipt 16 multiport slots rejected", kind: Iptables, ipv: 4, entry: "c", errKind: "invalid",
			chains: map[string][]string{"c": {`-A c -p tcp -m multiport --destination-ports 1,2,3,4,5,6,7,8,9,10,11,12,13,14,15:16 --jump DROP`}}, pkt: tcp("10.0.0.1", "10.0.0.2", 1, 1)},
		{name: "ipt unknown option is a gap", kind: Iptables, ipv: 4, entry: "c", errKind: "gap",
			chains: map[string][]string{"c": {`-A c -m string --string foo --jump DROP`}}, pkt: tcp("10.0.0.1", "10.0.0.2", 1, 1)},
		{name: "ipt undefined set is a gap", kind: Iptables, ipv: 4, entry: "c", errKind: "gap",
			chains: map[string][]string{"c": {`-A c -m set --match-set nosuch src --jump DROP`}}, pkt: tcp("10.0.0.1", "10.0.0.2", 1, 1)},
		{name: "ipt one-dimensional match on an ip,port set never matches (ip_set_test dim check)", kind: Iptables, ipv: 4, entry: "c", sets: sets,
			chains: map[string][]string{"c": {`-A c -m set --match-set cali40np dst --jump DROP`, `-A c -m set ! --match-set cali40np dst --jump ACCEPT`}},
			pkt:    tcp("10.0.0.1", "10.0.0.2", 1, 80), verdict: VerdictAccept},
		{name: "ipt extra dimension on a net set is ignored", kind: Iptables, ipv: 4, entry: "c", sets: sets,
			chains: map[string][]string{"c": {`-A c -m set --match-set cali40s1 src,src --jump DROP`}},
			pkt:    tcp("10.0.0.2", "10.0.0.2", 1, 80), verdict: VerdictDrop},
		{name: "ipt set of the other family fails the load", kind: Iptables, ipv: 4, entry: "c", sets: sets, errKind: "invalid",
			unload: map[string]string{"cali60np": "IPv6 set"},
			chains: map[string][]string{"c": {`-A c --jump RETURN`, `-A c -m set --match-set cali60np dst,dst --jump DROP`}},
			pkt:    tcp("10.0.0.1", "10.0.0.2", 1, 80)},
		{name: "ipt jump to undefined chain", kind: Iptables, ipv: 4, entry: "c", errKind: "invalid",
			chains: map[string][]string{"c": {`-A c --jump nosuch`}}, pkt: tcp("10.0.0.1", "10.0.0.2", 1, 1)},

		// ---------- nftables ----------
		{name: "nft mark ops", kind: NFT, ipv: 4, entry: "c",
			chains: map[string][]string{"c": {
				`counter meta mark set mark & 0xffffff9f ^ 0x40`,
				`meta mark & 0x20 == 0 counter meta mark set mark & 0xffffffbf`,
				`meta mark & 0x1 == 0x1 counter meta mark set mark or 0x100`}},
			pkt: withMark(tcp("10.0.0.1", "10.0.0.2", 1, 1), 0xff), verdict: VerdictReturn, mark: 0x19f},
		{name: "nft port set with implicit protocol", kind: NFT, ipv: 4, entry: "c",
			chains: map[string][]string{"c": {
				`meta l4proto tcp tcp dport { 100, 102-103 } counter meta mark set mark or 0x20`,
				`meta mark & 0x20 == 0x20 counter return`, `counter drop`}},
			pkt: tcp("10.0.0.1", "10.0.0.2", 1, 103), verdict: VerdictReturn, mark: 0x20},
		{name: "nft negated port set needs the protocol too", kind: NFT, ipv: 4, entry: "c",
			chains: map[string][]string{"c": {`udp dport != { 53 } counter drop`}},
			pkt:    tcp("10.0.0.1", "10.0.0.2", 1, 80), verdict: VerdictReturn},
		{name: "nft sets, concatenation, negation", kind: NFT, ipv: 4, entry: "c", sets: sets,
			chains: map[string][]string{"c": {
				`meta l4proto tcp ip saddr @cali40s1 ip saddr != 10.0.0.1/32 ip daddr . meta l4proto . th dport != @cali40np-x counter drop`,
				`ip daddr . meta l4proto . th dport @cali40np counter accept`}},
			pkt: tcp("10.0.0.2", "10.0.0.2", 1, 80), verdict: VerdictAccept},
		{name: "nft vmap hit dispatches with goto", kind: NFT, ipv: 4, entry: "d", stubs: []string{"filter-cali-fw-cali1"},
			maps:   map[string]map[string]string{"filter-m": {"cali1": "goto filter-cali-fw-cali1"}},
			chains: map[string][]string{"d": {`iifname vmap @filter-m`, `counter drop`}},
			pkt:    tcp("10.0.0.1", "10.0.0.2", 1, 1), verdict: VerdictReturn, reached: []string{"filter-cali-fw-cali1"}},
		{name: "nft vmap miss falls to next rule", kind: NFT, ipv: 4, entry: "d", stubs: []string{"filter-cali-fw-cali1"},
			maps:   map[string]map[string]string{"filter-m": {"cali1": "goto filter-cali-fw-cali1"}},
			chains: map[string][]string{"d": {`iifname vmap @filter-m`, `counter drop`}},
			pkt:    withIn(tcp("10.0.0.1", "10.0.0.2", 1, 1), "cali12"), verdict: VerdictDrop, not: []string{"filter-cali-fw-cali1"}},
		{name: "nft iifname wildcard", kind: NFT, ipv: 4, entry: "c",
			chains: map[string][]string{"c": {`iifname cali* counter drop`}},
			pkt:    tcp("10.0.0.1", "10.0.0.2", 1, 1), verdict: VerdictDrop},
		{name: "nft icmp type", kind: NFT, ipv: 4, entry: "c",
			chains: map[string][]string{"c": {`meta l4proto icmp icmp type != 8 counter drop`}},
			pkt:    icmp(9, 0), verdict: VerdictDrop},
		{name: "nft log + reject", kind: NFT, ipv: 4, entry: "c",
			chains: map[string][]string{"c": {`counter log prefix "calico-packet: " level info`, `counter reject`}},
			pkt:    tcp("10.0.0.1", "10.0.0.2", 1, 1), verdict: VerdictReject, logs: 1},
		{name: "nft 'icmp type T code C' is a syntax error", kind: NFT, ipv: 4, entry: "c", errKind: "invalid",
			chains: map[string][]string{"c": {`meta l4proto icmp icmp type 8 code 0 counter drop`}}, pkt: icmp(8, 0)},
		{name: "nft plain lookup in a concatenated set is a type mismatch", kind: NFT, ipv: 4, entry: "c", sets: sets, errKind: "invalid",
			chains: map[string][]string{"c": {`ip daddr @cali40np counter drop`}}, pkt: tcp("10.0.0.1", "10.0.0.2", 1, 80)},
		{name: "nft set of the other table fails the load", kind: NFT, ipv: 4, entry: "c", sets: sets, errKind: "invalid",
			unload: map[string]string{"cali60np": "IPv6 set"},
			chains: map[string][]string{"c": {`counter return`, `ip daddr . meta l4proto . th dport @cali60np counter drop`}}, pkt: tcp("10.0.0.1", "10.0.0.2", 1, 80)},
		{name: "nft unknown token is a gap", kind: NFT, ipv: 4, entry: "c", errKind: "gap",
			chains: map[string][]string{"c": {`tcp flags syn counter drop`}}, pkt: tcp("10.0.0.1", "10.0.0.2", 1, 1)},
		{name: "nft ip6 expression in ip table", kind: NFT, ipv: 4, entry: "c", errKind: "invalid",
			chains: map[string][]string{"c": {`ip6 saddr fd00::/64 counter drop`}}, pkt: tcp("10.0.0.1", "10.0.0.2", 1, 1)},
	}
	for _, c := range cases {
		rs := New(c.kind, c.ipv)
		names := c.order
		if names == nil {
			for n := range c.chains {
				names = append(names, n)
			}
		}
		for _, n := range names {
			rs.ReplaceChain(n, c.chains[n])
		}
		for _, s := range c.stubs {
			rs.Stub(s)
		}
		if c.sets != nil {
			rs.Sets = c.sets
		}
		if c.maps != nil {
			rs.Maps = c.maps
		}
		if c.unload != nil {
			rs.Unloadable = c.unload
		}
		p := c.pkt
		res, err := rs.Run(c.entry, &p)
		if c.errKind != "" {
			var kind string
			switch err.(type) {
			case *GapError:
				kind = "gap"
			case *InvalidError:
				kind = "invalid"
			}
			if kind != c.errKind {
				failf("%s: expected %s error, got %v (result %+v)", c.name, c.errKind, err, res)
			} else if c.errKind == "gap" && !strings.Contains(err.Error(), "HARNESS-GAP:") {
				failf("%s: gap error without HARNESS-GAP marker: %v", c.name, err)
			}
			continue
		}
		if err != nil {
			failf("%s: unexpected error %v", c.name, err)
			continue
		}
		if res.Verdict != c.verdict {
			failf("%s: verdict %s, expected %s", c.name, res.Verdict, c.verdict)
		}
		if (c.verdict == VerdictReturn || c.mark != 0) && res.Mark != c.mark {
			failf("%s: mark %#x, expected %#x", c.name, res.Mark, c.mark)
		}
		for _, r := range c.reached {
			if !res.Reached(r) {
				failf("%s: chain %q not reached (%v)", c.name, r, res.Chains)
			}
		}
		for _, r := range c.not {
			if res.Reached(r) {
				failf("%s: chain %q reached (%v)", c.name, r, res.Chains)
			}
		}
		if len(res.Logs) != c.logs {
			failf("%s: %d LOG actions, expected %d", c.name, len(res.Logs), c.logs)
		}
	}
	return fails
}
