package nfsim

import (
	"context"

	"github.com/projectcalico/calico/felix/environment"
	"github.com/projectcalico/calico/felix/generictables"
	"github.com/projectcalico/calico/felix/iptables"
	"github.com/projectcalico/calico/felix/nftables"
)

// Loading rendered chains.  The interpreter only ever sees TEXT: chains handed to the
// recorder tables below are rendered with Felix's exported renderers
// (iptables.NewIptablesRenderer(..).RenderAppend / nftables.NewNFTRenderer(..).Render) exactly
// as iptables.Table / nftables.NftablesTable would, and the resulting strings are parsed.
// For nftables the recorder sits behind the REAL nftables.NewTableLayer, so chain, jump/goto
// and verdict-map namespacing ("filter-...") is done by Felix's own code.

// DefaultFeatures is what the renderers are given unless the harness overrides it.
var DefaultFeatures = environment.Features{NFLogSize: true, SNATFullyRandom: true, MASQFullyRandom: true}

const iptablesMaxChainNameLength = 28

type recorder struct {
	*generictables.NoopTable
	rs       *Ruleset
	features *environment.Features
	ipt      iptables.IptablesRenderer
	nft      nftables.NFTRenderer
	// raw rules per chain, so that Insert/Append after UpdateChain re-render consistently
	rules map[string][]generictables.Rule
}

func (r *recorder) Name() string     { return "nfsim" }
func (r *recorder) IPVersion() uint8 { return uint8(r.rs.IPVersion) }

func (r *recorder) render(name string) {
	rules := r.rules[name]
	c := &generictables.Chain{Name: name, Rules: rules}
	texts := make([]string, 0, len(rules))
	if r.rs.Kind == Iptables {
		if len(name) > iptablesMaxChainNameLength {
			r.rs.fail(invalidf("iptables chain name %q longer than %d characters", name, iptablesMaxChainNameLength))
			return
		}
		hashes := r.ipt.RuleHashes(c, r.features)
		for i := range rules {
			texts = append(texts, r.ipt.RenderAppend(&rules[i], name, hashes[i], r.features))
		}
	} else {
		hashes := r.nft.RuleHashes(c, r.features)
		for i := range rules {
			k := r.nft.Render(name, hashes[i], rules[i], r.features)
			if k.Chain != name {
				r.rs.fail(gapf("renderer changed the chain name %q -> %q", name, k.Chain))
				return
			}
			texts = append(texts, k.Rule)
		}
	}
	r.rs.ReplaceChain(name, texts)
}

func (r *recorder) UpdateChain(c *generictables.Chain) {
	r.rules[c.Name] = append([]generictables.Rule(nil), c.Rules...)
	r.render(c.Name)
}

func (r *recorder) UpdateChains(cs []*generictables.Chain) {
	for _, c := range cs {
		r.UpdateChain(c)
	}
}

func (r *recorder) RemoveChainByName(name string) {
	delete(r.rules, name)
	delete(r.rs.chains, name)
	for i, n := range r.rs.order {
		if n == name {
			r.rs.order = append(r.rs.order[:i:i], r.rs.order[i+1:]...)
			break
		}
	}
}

func (r *recorder) RemoveChains(cs []*generictables.Chain) {
	for _, c := range cs {
		r.RemoveChainByName(c.Name)
	}
}

// InsertOrAppendRules / AppendRules: Felix's hook rules in the kernel's base chains.  The
// simulation keeps only Felix's own rules in such a chain (insert = before, append = after).
func (r *recorder) InsertOrAppendRules(chain string, rules []generictables.Rule) {
	r.rules[chain] = append(append([]generictables.Rule(nil), rules...), r.rules[chain]...)
	r.render(chain)
}

func (r *recorder) AppendRules(chain string, rules []generictables.Rule) {
	r.rules[chain] = append(r.rules[chain], rules...)
	r.render(chain)
}

// ---- nftables.MapsDataplane ----

func (r *recorder) AddOrReplaceMap(meta nftables.MapMetadata, members map[string][]string) {
	m := map[string]string{}
	for k, v := range members {
		mm := nftables.CanonicaliseMapMember(meta.Type, k, v)
		if mm == nil || len(mm.Key()) != 1 || len(mm.Value()) != 1 {
			r.rs.fail(gapf("verdict map %q member %q -> %v not understood", meta.Name, k, v))
			return
		}
		m[mm.Key()[0]] = mm.Value()[0]
	}
	r.rs.Maps[meta.Name] = m
}

func (r *recorder) RemoveMap(id string)                                { delete(r.rs.Maps, id) }
func (r *recorder) MapUpdates() *nftables.MapUpdates                   { return nil }
func (r *recorder) FinishMapUpdates(*nftables.MapUpdates)              {}
func (r *recorder) LoadDataplaneState(context.Context, []string) error { return nil }
func (r *recorder) InvalidateMapsCache()                               {}
func (r *recorder) InsertRulesNow(string, []generictables.Rule) error  { return nil }
func (r *recorder) CheckRulesPresent(string, []generictables.Rule) []generictables.Rule {
	return nil
}

func newRecorder(rs *Ruleset, hashPrefix string) *recorder {
	f := DefaultFeatures
	return &recorder{
		NoopTable: generictables.NewNoopTable(),
		rs:        rs,
		features:  &f,
		ipt:       iptables.NewIptablesRenderer(hashPrefix),
		nft:       nftables.NewNFTRenderer(hashPrefix, uint8(rs.IPVersion)),
		rules:     map[string][]generictables.Rule{},
	}
}

// NewIptables returns an empty iptables ruleset plus the generictables.Table through which
// rendered chains are loaded into it (UpdateChains, InsertOrAppendRules, AppendRules).
func NewIptables(ipVersion int) (*Ruleset, generictables.Table) {
	rs := New(Iptables, ipVersion)
	return rs, newRecorder(rs, "cali:")
}

// NFTTable is what NewNFT hands out: a generictables.Table that is also a MapsDataplane.
type NFTTable interface {
	generictables.Table
	nftables.MapsDataplane
}

// NewNFT returns an empty nftables ruleset plus the table *layer* (e.g. "filter", "raw",
// "mangle") through which chains and verdict maps are loaded.  The layer is Felix's real
// nftables.NewTableLayer; chain names inside the ruleset are therefore namespaced — use
// NFTName(layer, chain) for entry points and stubs.
func NewNFT(ipVersion int, layer string) (*Ruleset, NFTTable) {
	rs := New(NFT, ipVersion)
	return rs, nftables.NewTableLayer(layer, newRecorder(rs, "cali:")).(NFTTable)
}

// AddNFTLayer adds a further layer to an existing nftables ruleset (all layers share one
// nftables table, as in Felix).
func AddNFTLayer(rs *Ruleset, layer string) NFTTable {
	return nftables.NewTableLayer(layer, newRecorder(rs, "cali:")).(NFTTable)
}

// NFTName is the namespaced name of a chain or map inside an nftables layer.
func NFTName(layer, name string) string {
	if len(name) >= len(layer) && name[:len(layer)] == layer {
		return name
	}
	return layer + "-" + name
}
