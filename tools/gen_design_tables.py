#!/usr/bin/env python3
"""Regenerates the generated sections of DESIGN.md (findings table, seeded-change table) from
KNOWN_FINDINGS.json and seeded/*/meta.json.  Sections are delimited by HTML comment markers."""
import json, glob, os, re
V = os.path.dirname(os.path.dirname(os.path.abspath(__file__)))
kf = json.load(open(os.path.join(V, "KNOWN_FINDINGS.json")))["findings"]
rows = ["| property | signature | status | what |", "|---|---|---|---|"]
for x in sorted(kf, key=lambda x: (x["property"], x["status"], x["signature"])):
    st = x["status"] + (" " + x.get("commit", "") if x["status"] == "fixed" else "")
    what = x["what"].replace("|", "\\|")
    what = re.sub(r"^fixed: property=\S+ \S+ ", "", what)
    rows.append(f"| {x['property']} | `{x['signature']}` | {st} | {what} |")
nf = sum(1 for x in kf if x["status"] == "fixed"); no = sum(1 for x in kf if x["status"] == "open")
findings = f"{len(kf)} findings recorded: {nf} repaired by a `fix:` commit in /repo, {no} open (listed in `KNOWN_FINDINGS.json`, each with a deterministic confirming test that fails while the defect is present).\n\n" + "\n".join(rows)
srows = ["| seed | property | confirmed | detected by quick check | needs (from the seeder's README) |", "|---|---|---|---|---|"]
nd = nt = 0
for m in sorted(glob.glob(os.path.join(V, "seeded", "*", "meta.json"))):
    d = json.load(open(m))
    need = d.get("needs_summary") or ""
    if not need:
        rp = os.path.join(os.path.dirname(m), "README.md")
        if os.path.exists(rp):
            txt = open(rp).read()
            mm = re.search(r"(?is)what it needs[^\n]*\n(.*?)(\n#|\Z)", txt)
            if mm:
                need = " ".join(mm.group(1).split())[:260]
    det = "yes" if d.get("detected") else "NO"
    if d.get("note"):
        det += " (" + d["note"] + ")"
    nt += 1; nd += 1 if d.get("detected") else 0
    srows.append(f"| {d['seed_id']} | {d['property']} | {'yes' if d.get('confirmed_by_lead') else 'no'} | {det} | {need.replace('|', '/')} |")
seeds = f"{nt} seeded changes kept, {nd} detected by the quick tier of the property's check.\n\n" + "\n".join(srows)

# ---- units as built (from checks/*.json) ----
urows = ["| property | unit | package | tests (run regex) | quick cases | thorough cases × shards | race |", "|---|---|---|---|---|---|---|"]
for cf in sorted(glob.glob(os.path.join(V, "checks", "c*.json"))):
    for pid, c in json.load(open(cf)).items():
        for un, u in c.get("units", {}).items():
            q = u.get("quick", {}); t = u.get("thorough", {})
            urows.append(f"| {pid} | {un} | {u['pkg']} | `{u.get('run','').replace('|', chr(92)+'|')}` | {q.get('checks','-')} | {t.get('checks','-')} × {t.get('shards',1)} | {'yes' if u.get('race') else ''} |")
units = "One row per unit the driver builds and runs (a unit = one test binary built from /repo's working tree plus the listed harness files).\n\n" + "\n".join(urows)
p = os.path.join(V, "DESIGN.md"); s = open(p).read()
def put(s, name, body):
    a, b = f"<!-- BEGIN {name} -->", f"<!-- END {name} -->"
    if a not in s:
        s += f"\n{a}\n{b}\n"
    i, j = s.index(a) + len(a), s.index(b)
    return s[:i] + "\n" + body + "\n" + s[j:]
s = put(s, "FINDINGS", findings)
s = put(s, "SEEDS", seeds)
s = put(s, "UNITS", units)
open(p, "w").write(s)
print(f"findings {len(kf)} ({nf} fixed, {no} open); seeds {nt} ({nd} detected)")
