#!/bin/bash
# tools/run_all.sh [quick|thorough] [ids...] — run checks one after another, print a summary table.
TIER=${1:-quick}; shift
cd "$(dirname "$0")/.."
IDS="$@"; [ -z "$IDS" ] && IDS=$(./check --list | awk '$2=="claimed"{print $1}')
for id in $IDS; do
  t0=$(date +%s)
  out=$(./check $id --tier $TIER 2>&1); rc=$?
  t1=$(date +%s)
  line=$(echo "$out" | grep -E "^\[$id\] tier=" | tail -1)
  kf=$(echo "$out" | grep -c "^KNOWN-FINDING")
  echo "RESULT $id rc=$rc wall=$((t1-t0))s known=$kf $line"
  if [ $rc -ne 0 ]; then echo "$out" | tail -25 | sed "s/^/    | /"; fi
done
