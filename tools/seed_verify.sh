#!/bin/bash
# tools/seed_verify.sh <worktree> <A|B> <pkg-rel-dir-for-demo> [test-pkgs...]
# Confirms a seeded change: demo fails with patch, passes without; listed packages' tests pass with patch.
set -u
WT=$1; V=$2; DEMODIR=$3; shift 3
export GOFLAGS=-mod=mod GOPROXY=off
cd "$WT" || exit 2
git checkout -q -- . ; git clean -qfd -e _seed >/dev/null
S=_seed/$V
DEMO=$DEMODIR/zz_seed_demo_${V}_test.go
MOD=.
case "$DEMODIR" in lib/datastructures/*) MOD=lib/datastructures;; api/*) MOD=api;; esac
REL=${DEMODIR#$MOD/}; [ "$MOD" = . ] && REL=$DEMODIR
cp $S/demo_test.go $DEMO
[ -f $S/demo_hook.diff ] && { git apply $S/demo_hook.diff || { echo "HOOK DOES NOT APPLY"; exit 2; }; }
echo "== demo WITHOUT patch (expect PASS)"; (cd $MOD && CGO_ENABLED=${CGO:-0} go test -vet=off -count=1 ./$REL/ -run "${DEMORUN:-.}" >/tmp/sv.$$ 2>&1); r0=$?; tail -5 /tmp/sv.$$
git apply $S/patch.diff || { echo "PATCH DOES NOT APPLY"; exit 2; }
echo "== demo WITH patch (expect FAIL)"; (cd $MOD && CGO_ENABLED=${CGO:-0} go test -vet=off -count=1 ./$REL/ -run "${DEMORUN:-.}" >/tmp/sv.$$ 2>&1); r1=$?; tail -12 /tmp/sv.$$
rm -f $DEMO
[ -f $S/demo_hook.diff ] && git apply -R $S/demo_hook.diff
echo "== existing tests WITH patch (expect PASS)"; r2=0
for p in "$@"; do (cd $MOD && CGO_ENABLED=${CGO:-0} go test -vet=off -count=1 ./$p >/tmp/sv.$$ 2>&1); rc=$?; tail -4 /tmp/sv.$$; [ $rc -ne 0 ] && r2=1; done
echo "RESULT without=$r0 with=$r1 existing=$r2  (want 0, nonzero, 0) — patch left APPLIED in $WT"
rm -f /tmp/sv.$$
