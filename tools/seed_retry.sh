#!/bin/bash
# tools/seed_retry.sh <ID> <A|B> <demo pkg dir> [pkgs...] — recreate the worktree from seeded/<ID>-<v>/ and re-run seed_try.
ID=$1; V=$2
v=$(echo $V | tr A-Z a-z)
WT=${SEEDWT:-/tmp/seed-$ID}
if [ ! -d $WT ]; then git -C /repo worktree add -q --detach $WT HEAD || exit 2; fi
mkdir -p $WT/_seed/$V
cp /verif/seeded/$ID-$v/patch.diff /verif/seeded/$ID-$v/demo_test.go $WT/_seed/$V/
cp /verif/seeded/$ID-$v/README.md $WT/_seed/$V/ 2>/dev/null
NOTE=$(python3 -c "import json;print(json.load(open('/verif/seeded/$ID-$v/meta.json')).get('note',''))")
DEMORUN=${DEMORUN:-TestSeed} /verif/tools/seed_try.sh "$@"
