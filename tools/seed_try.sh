#!/bin/bash
# tools/seed_try.sh <ID> <A|B> <demo pkg rel dir> [existing test pkgs...]
# 1. move the seed worktree to /repo's HEAD  2. confirm the seed (tools/seed_verify.sh)
# 3. run ./check <ID> against the worktree with the patch applied  4. file it under seeded/<ID>-<v>/
ID=$1; V=$2; DEMODIR=$3; shift 3
WT=${SEEDWT:-/tmp/seed-$ID}
HEAD=$(git -C /repo rev-parse HEAD)
cd $WT || exit 2
git checkout -q -- . ; git clean -qfd -e _seed >/dev/null; git checkout -q --detach $HEAD || exit 2
/verif/tools/seed_verify.sh $WT $V $DEMODIR "$@" 2>&1 | tee /tmp/seedtry.$ID.$V.log | grep -E "^(==|RESULT|ok|FAIL|---|PATCH)" 
grep -q "^RESULT without=0 with=[1-9][0-9]* existing=0" /tmp/seedtry.$ID.$V.log && CONF=yes || CONF=no
echo "CONFIRMED=$CONF"
cd /verif; t0=$(date +%s)
./check $ID --repo $WT > /tmp/seedcheck.$ID.$V.log 2>&1; rc=$?
t1=$(date +%s)
grep -E "VIOLATION|KNOWN-FINDING|INCONCLUSIVE|^\[$ID\]" /tmp/seedcheck.$ID.$V.log | head -8
echo "CHECK rc=$rc wall=$((t1-t0))s"
D=/verif/seeded/$ID-$(echo $V | tr A-Z a-z)
mkdir -p $D; cp $WT/_seed/$V/patch.diff $D/patch.diff; cp $WT/_seed/$V/demo_test.go $D/demo_test.go; cp $WT/_seed/$V/README.md $D/README.md 2>/dev/null
python3 - "$ID" "$V" "$DEMODIR" "$CONF" "$rc" "$((t1-t0))" "$HEAD" "$@" <<'PY'
import json,sys,re
ID,V,demodir,conf,rc,wall,head=sys.argv[1:8]; pkgs=sys.argv[8:]
readme=open(__import__('os').environ.get('SEEDWT',f'/tmp/seed-{ID}')+f'/_seed/{V}/README.md').read() if True else ''
log=open(f'/tmp/seedcheck.{ID}.{V}.log').read()
viol=[l for l in log.splitlines() if l.startswith('VIOLATION')]
meta={"seed_id":f"{ID}-{V.lower()}","property":ID,"base_commit":head,
 "demo_placed_in":demodir,"existing_test_packages_run_with_patch":pkgs,
 "confirmed_by_lead":conf=="yes",
 "what_ran":f"tools/seed_try.sh {ID} {V} {demodir} {' '.join(pkgs)}: demo passes without patch, fails with patch, listed packages' tests pass with patch; then ./check {ID} --repo <worktree with patch applied>",
 "check_exit_code":int(rc),"check_wall_s":int(wall),"detected":int(rc)==1,
 "violation_line":viol[0] if viol else None,
 "needs_to_manifest":"see README.md (written by the seeding agent, who saw only the property text)"}
json.dump(meta,open(f'/verif/seeded/{ID}-{V.lower()}/meta.json','w'),indent=1)
print(json.dumps({k:meta[k] for k in ('seed_id','confirmed_by_lead','detected','check_exit_code')}))
PY
cd $WT; git checkout -q -- . ; git clean -qfd -e _seed >/dev/null
